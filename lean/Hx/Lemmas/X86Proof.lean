/-
  Hx.Lemmas.X86Proof — the SSE4.2 / AVX2 scanners of `Hx.Scan.X86` are exact, given an exact
  SWAR fallback.

  * every intrinsic is lane-wise, so the vector handed to `movemask` is `dat.map F` for a lane
    function `F`; "`F b` has its top bit set iff `b` is in the class" is decided over all 256 bytes;
  * `trailingOnes (movemask (dat.map F))` is then the length of `dat.takeWhile cls`;
  * a generic lemma about `blockLoop` lifts kernel exactness on one block to the whole scanner.
-/
import Hx.Scan.X86
import Hx.Lemmas.Basic
namespace Hx.X86
open Hx

/-! ### list / byte helpers -/

/-- two Boolean byte predicates agree if they agree on the 256 values (closed hypothesis) -/
theorem bytePred_eq {f g : Byte → Bool} (h : allBytesB (fun b => f b == g b) = true) :
    ∀ b, f b = g b := by
  intro b
  have := allBytesB_spec h b
  simpa using this

theorem takeWhile_congr' {α : Type} {p q : α → Bool} (h : ∀ a, p a = q a) (l : List α) :
    l.takeWhile p = l.takeWhile q := by
  have : p = q := funext h
  rw [this]

theorem length_takeWhile_le' {α : Type} (p : α → Bool) (l : List α) :
    (l.takeWhile p).length ≤ l.length := by
  induction l with
  | nil => simp
  | cons a t ih =>
    rw [List.takeWhile_cons]
    split <;> simp <;> omega

/-- splitting `takeWhile` at a block boundary -/
theorem takeWhile_block {α : Type} (p : α → Bool) (n : Nat) (l : List α) :
    l.takeWhile p =
      if ((l.take n).takeWhile p).length = (l.take n).length
      then l.take n ++ (l.drop n).takeWhile p else (l.take n).takeWhile p := by
  conv => lhs; rw [← List.take_append_drop n l]
  exact List.takeWhile_append

/-- a constant vector is a map of any vector of the same length -/
theorem replicate_eq_map {α β : Type} (dat : List α) (n : Nat) (h : dat.length = n) (c : β) :
    List.replicate n c = dat.map (fun _ => c) := by
  rw [List.map_const', h]

theorem zipWith_map_map {α β γ δ : Type} (f : β → γ → δ) (g : α → β) (h : α → γ) (l : List α) :
    List.zipWith f (l.map g) (l.map h) = l.map (fun x => f (g x) (h x)) := by
  rw [List.zipWith_map, List.zipWith_self]

theorem zipWith_self_map {α γ δ : Type} (f : α → γ → δ) (h : α → γ) (l : List α) :
    List.zipWith f l (l.map h) = l.map (fun x => f x (h x)) := by
  rw [List.zipWith_map_right, List.zipWith_self]

theorem zipWith_map_self {α β δ : Type} (f : β → α → δ) (g : α → β) (l : List α) :
    List.zipWith f (l.map g) l = l.map (fun x => f (g x) x) := by
  rw [List.zipWith_map_left, List.zipWith_self]

/-- `trailing_ones(movemask(v))` for a lane-wise computed `v` -/
theorem trailingOnes_movemask_map (dat : List Byte) (F : Byte → Byte) (cls : Byte → Bool)
    (h : ∀ b, decide (0x80 ≤ F b) = cls b) :
    trailingOnes (movemask (dat.map F)) = (dat.takeWhile cls).length := by
  unfold trailingOnes movemask
  rw [List.map_map, List.takeWhile_map, List.length_map]
  congr 1
  apply takeWhile_congr'
  intro b
  simpa using h b

/-! ### the kernels on one block -/

-- the `simp only` sets below are deliberately a little larger than what the current model needs
set_option linter.unusedSimpArgs false

theorem uriKernel_exact (lanes : Nat) (buf : List Byte) (h : lanes ≤ buf.length) :
    uriKernel lanes buf = some ((buf.take lanes).takeWhile isUri).length := by
  have hlen : (buf.take lanes).length = lanes := by simp; omega
  have hrep := replicate_eq_map (β := Byte) (buf.take lanes) lanes hlen
  unfold uriKernel lddqu
  simp only [h, if_true]
  unfold set1 cmpeqEpi8 maxEpu8 andnot
  simp only [hrep, zipWith_map_map, zipWith_self_map, zipWith_map_self, List.zipWith_self,
    List.map_map]
  congr 1
  refine trailingOnes_movemask_map _ _ _ ?_
  exact bytePred_eq (by decide +kernel)

theorem valueKernel_exact (lanes : Nat) (buf : List Byte) (h : lanes ≤ buf.length) :
    valueKernel lanes buf = some ((buf.take lanes).takeWhile isValue).length := by
  have hlen : (buf.take lanes).length = lanes := by simp; omega
  have hrep := replicate_eq_map (β := Byte) (buf.take lanes) lanes hlen
  unfold valueKernel lddqu
  simp only [h, if_true]
  unfold set1 cmpeqEpi8 maxEpu8 andnot or
  simp only [hrep, zipWith_map_map, zipWith_self_map, zipWith_map_self, List.zipWith_self,
    List.map_map]
  congr 1
  refine trailingOnes_movemask_map _ _ _ ?_
  exact bytePred_eq (by decide +kernel)

/-! ### the block loop -/

/-- With the loop bound equal to the block size, a kernel that is exact on the first block and an
exact fallback, `blockLoop` is exact (for enough fuel). -/
theorem blockLoop_exact {cls : Byte → Bool} {lanes : Nat} {kernel : List Byte → Option Nat}
    {fallback : Scanner} (hl : 0 < lanes)
    (hk : ∀ l, lanes ≤ l.length → kernel l = some ((l.take lanes).takeWhile cls).length)
    (hfb : Scanner.Exact cls fallback) :
    ∀ fuel l, l.length < fuel →
      blockLoop lanes lanes kernel fallback fuel l = some (l.takeWhile cls).length := by
  intro fuel
  induction fuel with
  | zero => intro l h; omega
  | succ fuel ih =>
    intro l hfuel
    unfold blockLoop
    by_cases h : lanes ≤ l.length
    · have htl : (l.take lanes).length = lanes := by simp; omega
      have hle := length_takeWhile_le' cls (l.take lanes)
      have hsplit := takeWhile_block cls lanes l
      simp only [h, hl, and_self, if_true, hk l h]
      rw [if_neg (by omega)]
      by_cases hadv : ((l.take lanes).takeWhile cls).length = lanes
      · -- the whole block is in the class: continue after it
        rw [htl, if_pos hadv] at hsplit
        have hdrop : (l.drop lanes).length < fuel := by simp; omega
        simp only [hadv, bne_self_eq_false, Bool.false_eq_true, if_false, ih _ hdrop,
          Option.map_some, hsplit, List.length_append, htl]
        congr 1
        omega
      · -- the scan stops inside the block
        rw [htl, if_neg hadv] at hsplit
        have : (((l.take lanes).takeWhile cls).length != lanes) = true := by simpa using hadv
        simp only [this, if_true, hsplit]
    · have : ¬ (lanes ≤ l.length ∧ 0 < lanes) := fun hh => h hh.1
      rw [if_neg this]
      exact hfb l

/-! ### the four scanners -/

theorem sse42Uri_exact {w : Nat} {le : Bool} (hfb : Scanner.Exact isUri (Swar.uriScanner w le)) :
    Scanner.Exact isUri (sse42Uri w le) := fun l =>
  blockLoop_exact (by decide) (uriKernel_exact 16) hfb (l.length + 1) l (Nat.lt_succ_self _)

theorem sse42Value_exact {w : Nat} {le : Bool}
    (hfb : Scanner.Exact isValue (Swar.valueScanner w le)) :
    Scanner.Exact isValue (sse42Value w le) := fun l =>
  blockLoop_exact (by decide) (valueKernel_exact 16) hfb (l.length + 1) l (Nat.lt_succ_self _)

theorem avx2Uri_exact {w : Nat} {le : Bool} (hfb : Scanner.Exact isUri (Swar.uriScanner w le)) :
    Scanner.Exact isUri (avx2Uri w le) := fun l =>
  blockLoop_exact (by decide) (uriKernel_exact 32) hfb (l.length + 1) l (Nat.lt_succ_self _)

theorem avx2Value_exact {w : Nat} {le : Bool}
    (hfb : Scanner.Exact isValue (Swar.valueScanner w le)) :
    Scanner.Exact isValue (avx2Value w le) := fun l =>
  blockLoop_exact (by decide) (valueKernel_exact 32) hfb (l.length + 1) l (Nat.lt_succ_self _)

end Hx.X86
