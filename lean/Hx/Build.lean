/-
  Hx.Build — `build.rs` as a function from the build environment to the cfg flags it emits
  (hand-written; compared with the flags each real build variant reports through the hook
  `_verif::flags()` by ./check C13).
-/
import Hx.Gen.Cfg
namespace Hx.Build
open Hx.Gen.Cfg

/-- what `build.rs` reads -/
structure BuildEnv where
  stdFeature : Bool          -- CARGO_FEATURE_STD set
  miri : Bool                -- CARGO_CFG_MIRI set
  disableSimd : Bool         -- CARGO_CFG_HTTPARSE_DISABLE_SIMD == "1"
  rustcAtLeast159 : Bool     -- rustc version ≥ 1.59.0 (and `rustc --version` parsed)
  versionParsed : Bool       -- `Version::parse` succeeded
  disableCompileTime : Bool  -- CARGO_CFG_HTTPARSE_DISABLE_SIMD_COMPILETIME == "1"
  featureListOk : Bool       -- CARGO_CFG_TARGET_FEATURE present and UTF-8
  hasSse42 : Bool            -- "sse4.2" in the target-feature list
  hasAvx2 : Bool             -- "avx2" in the target-feature list
  deriving DecidableEq, Repr

/-- the `cargo:rustc-cfg=…` lines of `build.rs` (`main` → `enable_simd`) -/
def flags (e : BuildEnv) (arch : Arch) : Flags :=
  if !e.versionParsed then ⟨false, false, false, false, arch⟩
  else if !e.stdFeature then ⟨false, false, false, false, arch⟩
  else if e.miri then ⟨false, false, false, false, arch⟩
  else if e.disableSimd then ⟨false, false, false, false, arch⟩
  else
    let neon := e.rustcAtLeast159
    if e.disableCompileTime then ⟨true, false, false, neon, arch⟩
    else if !e.featureListOk then ⟨true, false, false, neon, arch⟩
    else ⟨true, e.hasSse42, e.hasAvx2, neon, arch⟩

end Hx.Build
