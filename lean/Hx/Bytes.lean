/-
  Hx.Bytes — the cursor of `src/iter.rs` and the parsing monad mirroring `src/macros.rs`.

  Rust `Bytes { start, end, cursor }` over a buffer `buf` becomes
    start : offset of `start` in the buffer
    tok   : the bytes in `[start, cursor)`   (consumed, not yet committed)
    rest  : the bytes in `[cursor, end)`
  so `cursor = start + tok.length` and (invariant, proved in `Hx.Lemmas.Inv`)
  `buf = buf.take start ++ tok ++ rest`.  Every `unsafe` precondition is explicit: an
  operation whose Rust precondition fails returns `Outcome.ub _`.
-/
import Hx.Basic
namespace Hx

structure Cur where
  start : Nat
  tok : List Byte
  rest : List Byte
  deriving Repr, DecidableEq, Inhabited

namespace Cur
/-- `Bytes::new(buf)` -/
def new (buf : List Byte) : Cur := ⟨0, [], buf⟩
/-- offset of `cursor` in the buffer -/
def pos (c : Cur) : Nat := c.start + c.tok.length
/-- `Bytes::len()` -/
def len (c : Cur) : Nat := c.rest.length
/-- the cursor after more bytes are appended to the buffer -/
def shift (ext : List Byte) (c : Cur) : Cur := { c with rest := c.rest ++ ext }
end Cur

/-- A parsing step on the cursor; mirrors a Rust function `fn(&mut Bytes) -> Result<T>`. -/
structure P (α : Type) where
  run : Cur → Outcome (α × Cur)

namespace P
@[inline] def pure {α : Type} (a : α) : P α := ⟨fun c => .ok (a, c)⟩
@[inline] def bind {α β : Type} (f : P α) (g : α → P β) : P β := ⟨fun c =>
  match f.run c with
  | .ok (a, c') => (g a).run c'
  | .part => .part
  | .err e => .err e
  | .ub u => .ub u⟩
/-- `return Err(e)` -/
@[inline] def fail {α : Type} (e : Error) : P α := ⟨fun _ => .err e⟩
/-- `return Ok(Status::Partial)` -/
@[inline] def partial_ {α : Type} : P α := ⟨fun _ => .part⟩
@[inline] def undefined {α : Type} (u : UB) : P α := ⟨fun _ => .ub u⟩
end P

instance : Monad P where
  pure := P.pure
  bind := P.bind

/-- `Iterator::next` (`None` at end of input). -/
def Cur.next? (c : Cur) : Option (Byte × Cur) :=
  match c.rest with
  | [] => none
  | b :: r => some (b, { c with tok := c.tok ++ [b], rest := r })

/-- `next!(bytes)`: one byte, or `return Ok(Partial)` at end of input. -/
def next : P Byte := ⟨fun c =>
  match c.rest with
  | [] => .part
  | b :: r => .ok (b, { c with tok := c.tok ++ [b], rest := r })⟩

/-- `bytes.peek()` -/
def Cur.peek (c : Cur) : Option Byte := c.rest.head?

/-- `match bytes.peek() { None => return Ok(Partial), Some(b) => b }` (no consumption). -/
def peekOrPart : P Byte := ⟨fun c =>
  match c.rest with
  | [] => .part
  | b :: _ => .ok (b, c)⟩

/-- `bytes.peek_n::<[u8; n]>(n)`: safe (`get(..n)`), `None` when fewer than `n` bytes remain. -/
def Cur.peekN (c : Cur) (n : Nat) : Option (List Byte) :=
  if n ≤ c.rest.length then some (c.rest.take n) else none

/-- `unsafe bytes.peek_ahead(n)`; precondition `n ≤ len()`. -/
def peekAhead (n : Nat) : P (Option Byte) := ⟨fun c =>
  if n ≤ c.rest.length then .ok (c.rest[n]?, c) else .ub .peekAhead⟩

/-- `unsafe bytes.advance(n)`; precondition `n ≤ len()`. (`bump()` is `advance 1`.) -/
def advance (n : Nat) : P Unit := ⟨fun c =>
  if n ≤ c.rest.length then
    .ok ((), { c with tok := c.tok ++ c.rest.take n, rest := c.rest.drop n })
  else .ub .advance⟩

/-- `bytes.slice()`: `[start, cursor)`, then `commit()`. -/
def slice : P Slice := ⟨fun c =>
  .ok (⟨c.start, c.tok⟩, { c with start := c.start + c.tok.length, tok := [] })⟩

/-- `unsafe bytes.slice_skip(k)`: `[start, cursor - k)`, then `commit()`; precondition
`k ≤ cursor - start`. -/
def sliceSkip (k : Nat) : P Slice := ⟨fun c =>
  if k ≤ c.tok.length then
    .ok (⟨c.start, c.tok.take (c.tok.length - k)⟩,
         { c with start := c.start + c.tok.length, tok := [] })
  else .ub .sliceSkip⟩

/-- `expect!(bytes.next() == pat => Err(e))` -/
def expect (p : Byte → Bool) (e : Error) : P Byte := do
  let b ← next
  if p b then pure b else P.fail e

/-- `space!(bytes or e)` -/
def space (e : Error) : P Unit := do
  let _ ← expect (· == SP) e
  let _ ← slice
  pure ()

/-- `newline!(bytes)` -/
def newline : P Unit := do
  let b ← next
  if b == CR then
    let _ ← expect (· == LF) .newLine
    let _ ← slice
    pure ()
  else if b == LF then
    let _ ← slice
    pure ()
  else P.fail .newLine

/-! ### Scanners -/

/-- A byte-class scanner: how far it advances on the remaining bytes; `none` = undefined
behaviour inside the scanner (e.g. a vector load past the end). -/
abbrev Scanner := List Byte → Option Nat

/-- The three scanners a backend provides (`simd::match_uri_vectored`,
`match_header_value_vectored`, `match_header_name_vectored`). -/
structure Backend where
  uri : Scanner
  value : Scanner
  name : Scanner

/-- run a scanner at the cursor and advance by what it reports -/
def scan (s : Scanner) : P Nat := ⟨fun c =>
  match s c.rest with
  | none => .ub .simdLoad
  | some n =>
    if n ≤ c.rest.length then
      .ok (n, { c with tok := c.tok ++ c.rest.take n, rest := c.rest.drop n })
    else .ub .scanOverrun⟩

/-- A scanner call followed by the mandatory `next!` — the only way the crate uses scanners.
Returns the number of bytes the scanner matched and the byte after them. -/
def scanNext (s : Scanner) : P (Nat × Byte) := do
  let n ← scan s
  let b ← next
  pure (n, b)

/-- The reference scanner for a class: length of the longest in-class prefix. -/
def specScanner (cls : Byte → Bool) : Scanner := fun l => some (l.takeWhile cls).length

/-- A scanner is exact for a class when it stops exactly at the first out-of-class byte
(or the end) and never leaves defined behaviour. -/
def Scanner.Exact (cls : Byte → Bool) (s : Scanner) : Prop :=
  ∀ l, s l = some (l.takeWhile cls).length

structure Backend.Exact (be : Backend) : Prop where
  uri : Scanner.Exact isUri be.uri
  value : Scanner.Exact isValue be.value
  name : Scanner.Exact isTchar be.name

/-- The reference backend. -/
def specBackend : Backend := ⟨specScanner isUri, specScanner isValue, specScanner isTchar⟩

end Hx
