/-
  Hx.Utf8 — `validUtf8`, the model of `core::str::from_utf8(..).is_ok()`.
  Well-formed UTF-8 byte sequences, Unicode Standard Table 3-7.
-/
import Hx.Basic
namespace Hx

def isCont (b : Byte) : Bool := 0x80 ≤ b && b ≤ 0xBF

/-- second-byte range for a three-byte sequence with lead byte `b0` -/
def utf8Second3 (b0 b1 : Byte) : Bool :=
  if b0 == 0xE0 then 0xA0 ≤ b1 && b1 ≤ 0xBF
  else if b0 == 0xED then 0x80 ≤ b1 && b1 ≤ 0x9F
  else if (0xE1 ≤ b0 && b0 ≤ 0xEC) || (0xEE ≤ b0 && b0 ≤ 0xEF) then isCont b1
  else false

/-- second-byte range for a four-byte sequence with lead byte `b0` -/
def utf8Second4 (b0 b1 : Byte) : Bool :=
  if b0 == 0xF0 then 0x90 ≤ b1 && b1 ≤ 0xBF
  else if b0 == 0xF4 then 0x80 ≤ b1 && b1 ≤ 0x8F
  else if 0xF1 ≤ b0 && b0 ≤ 0xF3 then isCont b1
  else false

def validUtf8 : List Byte → Bool
  | [] => true
  | b0 :: r =>
    if b0 < 0x80 then validUtf8 r else
    match r with
    | [] => false
    | b1 :: r1 =>
      if 0xC2 ≤ b0 && b0 ≤ 0xDF then isCont b1 && validUtf8 r1 else
      match r1 with
      | [] => false
      | b2 :: r2 =>
        if utf8Second3 b0 b1 then isCont b2 && validUtf8 r2 else
        match r2 with
        | [] => false
        | b3 :: r3 =>
          if utf8Second4 b0 b1 then isCont b2 && isCont b3 && validUtf8 r3 else false

end Hx
