/-
  Driver — line-protocol driver (compiled `lean_exe`, imports only the import-free model).

    driver judge          reads harness output lines (`<case> => <observation>`) on stdin, runs the
                          model's executable definitions on the same case, compares per property
                          projection, evaluates the `chk…` predicates on the REAL observation, prints
                          one `FAIL …` line per failing (case, property) and `STAT …` lines at the end.
    driver model          reads case lines, prints the model's observation (debugging / witnesses).
-/
import Hx.Judge

open Hx

partial def loop (h : IO.FS.Stream) (st : JState) (mode : String) : IO JState := do
  let line ← h.getLine
  if line.isEmpty then return st
  let l := (line.trimAscii).toString
  if l.isEmpty then loop h st mode
  else
    let (st', outs) := if mode == "judge" then judgeLine st l else if mode == "buildflags" then (st, [buildFlagsLine l]) else if mode == "witness" then (st, witnessLine l) else modelLine st l
    for o in outs do IO.println o
    loop h st' mode

def main (args : List String) : IO UInt32 := do
  let mode := args.headD "judge"
  let stdin ← IO.getStdin
  let st ← loop stdin JState.init mode
  for s in st.statLines do IO.println s
  return 0
