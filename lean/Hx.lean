import Hx.Basic
import Hx.Bytes
import Hx.Utf8
import Hx.Parse.Start
import Hx.Parse.Headers
import Hx.Parse.Chunk
import Hx.Parse.Entry
