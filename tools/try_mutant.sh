#!/bin/bash
# usage: try_mutant.sh "<sed expr>" <file> <props...>   — applies a sed mutation to /repo, runs the checks, reverts
expr="$1"; file="$2"; shift 2
cd /repo && sed -i "$expr" "$file" && git diff --stat | tail -1
if git diff --quiet; then echo "NO CHANGE"; exit 1; fi
cd /verif
for p in "$@"; do
  out=$(VERIF_NO_DEEP_SEARCH=1 ./check $p --tier quick 2>/dev/null | grep -E "VIOLATION|KNOWN" | head -2)
  echo "$p: ${out:-pass}"
done
cd /repo && git checkout -- . && git status --short
