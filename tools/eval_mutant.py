#!/usr/bin/env python3
"""
eval_mutant.py <ID> <x> [--props C01,C02,...] [--skip-confirm]
Confirms a candidate mutant delivered under /tmp/mut/out/<ID>/<x>.{patch.diff,demo.rs,meta.txt} in a
scratch worktree (patch applies, existing suite passes with it, demo fails with it and passes without),
then applies it to /repo, runs the named checks (default: all claimed), undoes it, and records the
result under /verif/seeded/<ID>-<x>/.
"""
import sys, os, subprocess, json, shutil, time

ID, X = sys.argv[1], sys.argv[2]
props = None
if "--props" in sys.argv:
    props = sys.argv[sys.argv.index("--props") + 1].split(",")
skip = "--skip-confirm" in sys.argv
src = "/tmp/mut/out/%s" % ID
patch = os.path.join(src, X + ".patch.diff")
demo = os.path.join(src, X + ".demo.rs")
meta = os.path.join(src, X + ".meta.txt")
env = dict(os.environ, CARGO_NET_OFFLINE="true")


def run(cmd, cwd=None, timeout=3600):
    r = subprocess.run(cmd, shell=True, cwd=cwd, env=env, capture_output=True, text=True, timeout=timeout)
    return r.returncode, (r.stdout + r.stderr)


res = {"id": ID, "variant": X, "confirmed": None}
if not skip:
    wt = "/tmp/mut/verify-%s-%s" % (ID, X)
    run("git -C /repo worktree remove --force %s" % wt)
    rc, out = run("git -C /repo worktree add -q %s HEAD" % wt)
    assert rc == 0, out
    try:
        shutil.copy(demo, os.path.join(wt, "tests", "demo_%s_%s.rs" % (ID, X)))
        demo_cmd = open(meta).read()
        extra = ""
        if "--release" in demo_cmd and "[--release]" not in demo_cmd:
            extra = " --release"
        rc0, out0 = run("cargo test --offline --test demo_%s_%s%s 2>&1 | tail -15" % (ID, X, extra), cwd=wt)
        ok_without = "test result: ok" in out0
        rc, out = run("git apply %s" % patch, cwd=wt)
        applies = rc == 0
        rc1, out1 = run("cargo test --offline --test demo_%s_%s%s 2>&1 | tail -25" % (ID, X, extra), cwd=wt)
        fails_with = ("FAILED" in out1 or "failed" in out1 or "panicked" in out1) and "test result: ok" not in out1.split("running")[-1]
        os.remove(os.path.join(wt, "tests", "demo_%s_%s.rs" % (ID, X)))
        rc2, out2 = run("cargo test --offline --workspace --no-fail-fast 2>&1 | grep -E '^test result|FAILED|error' | head", cwd=wt)
        suite_ok = out2.count("test result: ok") >= 3 and "FAILED" not in out2 and "error" not in out2
        res.update({"applies": applies, "demo_passes_without": ok_without, "demo_fails_with": fails_with, "suite_passes_with": suite_ok,
                    "suite_tail": out2[-400:], "demo_tail_with": out1[-600:]})
        res["confirmed"] = bool(applies and ok_without and fails_with and suite_ok)
    finally:
        run("git -C /repo worktree remove --force %s" % wt)
print("confirm:", {k: res.get(k) for k in ("applies", "demo_passes_without", "demo_fails_with", "suite_passes_with", "confirmed")})

# run the checks against it
claimed = [c["property_id"] for c in json.load(open("/verif/MANIFEST.json"))["checks"]]
todo = props or claimed
ALT = "--alt" in sys.argv     # evaluate in a scratch worktree through VERIF_REPO (when /repo itself is in use)
TARGET = "/repo"
if ALT:
    TARGET = "/tmp/mut/alt"
    run("git -C /repo worktree remove --force %s" % TARGET)
    rc, out = run("git -C /repo worktree add -q %s HEAD" % TARGET)
    assert rc == 0, out
    env["VERIF_REPO"] = TARGET
rc, out = run("git -C %s status --porcelain" % TARGET)
assert out.strip() == "", "%s not clean: " % TARGET + out
rc, out = run("git -C %s apply %s" % (TARGET, patch))
assert rc == 0, out
verdicts = {}
try:
    for p in todo:
        t0 = time.time()
        rc, out = run("VERIF_NO_DEEP_SEARCH=1 ./check %s --tier quick 2>/dev/null | grep -E 'VIOLATION|KNOWN' | head -3" % p, cwd="/verif")
        v = "pass"
        if "VIOLATION" in out:
            v = "no-failing-input-found" if "no-failing-input-found" in out else "VIOLATION"
            rp = "/verif/replays/%s-0.json" % p
            if os.path.exists(rp):
                try:
                    j = json.load(open(rp))
                    verdicts[p + "_case"] = (j.get("shrunk_case") or (j.get("finding") or {}).get("case") or "")[:200]
                    verdicts[p + "_note"] = ((j.get("finding") or {}).get("note") or "")[:160]
                except Exception:
                    pass
        verdicts[p] = v
        print(p, v, "%.0fs" % (time.time() - t0), flush=True)
finally:
    run("git -C %s checkout -- ." % TARGET)
rc, out = run("git -C %s status --porcelain" % TARGET)
assert out.strip() == "", "%s not restored: " % TARGET + out
if ALT:
    run("git -C /repo worktree remove --force %s" % TARGET)
res["verdicts"] = verdicts
res["breaks"] = ID
res["meta_text"] = open(meta).read() if os.path.exists(meta) else ""
d = "/verif/seeded/%s-%s" % (ID, X)
os.makedirs(d, exist_ok=True)
if skip and os.path.exists(os.path.join(d, "meta.json")):
    old = json.load(open(os.path.join(d, "meta.json")))
    res["confirmed"] = old.get("confirmed_in_scratch_worktree")
    for k, v in (old.get("confirmation") or {}).items():
        res[k] = v
    merged = dict(old.get("verdicts") or {})
    merged.update(verdicts)
    verdicts = merged
shutil.copy(patch, os.path.join(d, "patch.diff"))
shutil.copy(demo, os.path.join(d, "demo.rs"))
json.dump({"breaks_property": ID, "needs_to_manifest": res["meta_text"], "confirmed_in_scratch_worktree": res.get("confirmed"),
           "confirmation": {k: res.get(k) for k in ("applies", "demo_passes_without", "demo_fails_with", "suite_passes_with")},
           "ran": "tools/eval_mutant.py %s %s: applied to /repo, ./check <prop> --tier quick for %s, then git checkout" % (ID, X, todo),
           "verdicts": verdicts}, open(os.path.join(d, "meta.json"), "w"), indent=1)
print("caught_by_target:", verdicts.get(ID))
