#!/usr/bin/env python3
"""
coverage.py [tier] [seed]   (default: quick 1)

Measures what the correspondence families execute in /repo/src: builds the harness with
`-C instrument-coverage` (nightly toolchain, whose llvm-tools are installed), runs every case family
of the given tier, and lists the source regions of /repo/src that no case reaches (a region counts as
reached if any instantiation of it is).  This is a measurement of generator quality ("the
correspondence check sees only what the generators produce"), not a check: it gates nothing and is
not registered in MANIFEST.json.  Scratch goes to /root/scratch/cov and is removed at the end.

Output: one line per uncovered region, grouped by file, and a summary; the last measured summary is
recorded in DESIGN.md §11.9.
"""
import json, os, shutil, subprocess, sys
from concurrent.futures import ThreadPoolExecutor

tier = sys.argv[1] if len(sys.argv) > 1 else "quick"
seed = sys.argv[2] if len(sys.argv) > 2 else "1"
W = "/root/scratch/cov"
LT = "/root/.rustup/toolchains/nightly-x86_64-unknown-linux-gnu/lib/rustlib/x86_64-unknown-linux-gnu/bin"
FAMS = "core block chunk scan swar utf8 entries hist place classes split cfgpair hrel caps".split()
shutil.rmtree(W, ignore_errors=True)
os.makedirs(W)
shutil.copytree("/verif/harness", W + "/h", ignore=shutil.ignore_patterns("target"))
env = dict(os.environ, CARGO_NET_OFFLINE="true", RUSTFLAGS="--cfg httparse_verif -C instrument-coverage",
           CARGO_TARGET_DIR=W + "/target", LLVM_PROFILE_FILE=W + "/build.%p.profraw")   # (build scripts are instrumented too)
subprocess.run(["cargo", "+nightly", "build", "--offline", "-q"], cwd=W + "/h", env=env, check=True)
H = W + "/target/debug/hxharness"


def one(f):
    e = dict(os.environ, LLVM_PROFILE_FILE=W + "/gen.%p.profraw")
    cases = subprocess.run([H, "gen", f, tier, seed], env=e, capture_output=True, text=True).stdout
    cases = "\n".join(sorted(set(cases.splitlines()))) + "\n"
    e = dict(os.environ, LLVM_PROFILE_FILE=W + "/run.%p.profraw")
    subprocess.run([H, "run"], input=cases, env=e, stdout=subprocess.DEVNULL, stderr=subprocess.DEVNULL, text=True)
    return f, cases.count("\n")


with ThreadPoolExecutor(16) as ex:
    counts = dict(ex.map(one, FAMS))
for extra in (["info"], ["race"]):
    subprocess.run([H] + extra, env=dict(os.environ, LLVM_PROFILE_FILE=W + "/x.%p.profraw"),
                   stdout=subprocess.DEVNULL, stderr=subprocess.DEVNULL)
raws = [os.path.join(W, x) for x in os.listdir(W) if x.endswith(".profraw")]
subprocess.run([LT + "/llvm-profdata", "merge", "-sparse"] + raws + ["-o", W + "/all.profdata"], check=True)
j = json.loads(subprocess.run([LT + "/llvm-cov", "export", H, "-instr-profile=" + W + "/all.profdata", "--sources", "/repo/src"],
                              capture_output=True, text=True).stdout)
d = {}
for fn in j["data"][0]["functions"]:
    for r in fn["regions"]:
        l1, c1, l2, c2, cnt, fid, efid, kind = r
        if kind != 0:
            continue
        k = (fn["filenames"][fid], l1, c1, l2, c2)
        if not k[0].startswith("/repo/src/"):
            continue
        d[k] = d.get(k, False) or cnt > 0
tot = len(d)
miss = sorted(k for k in d if not d[k])
print("cases per family:", counts)
print("regions: %d, reached: %d, not reached: %d" % (tot, tot - len(miss), len(miss)))
cur = None
for k in miss:
    if k[0] != cur:
        cur = k[0]
        print(cur)
    src = open(k[0]).read().splitlines()[k[1] - 1].strip()
    print("   %d:%d-%d:%d   %s" % (k[1], k[2], k[3], k[4], src[:90]))
shutil.rmtree(W, ignore_errors=True)
