#!/usr/bin/env python3
"""
swar2lean.py <repo> <leandir> — regenerates Hx/Gen/Swar.lean from <repo>/src/simd/swar.rs.

The SWAR scanners run on this machine only as 64-bit little-endian code; the C12 theorem also covers
32-bit words and big-endian targets (`from_ne_bytes` / `to_ne_bytes`), which cannot be executed here.
So the word arithmetic of the two range kernels is *generated from the current source on every run* and
the theorems (`Hx/Lemmas/SwarGen.lean`: generated kernel = the kernel `SwarProof` is about, for every
word size and endianness) are re-checked by `lake build`.  What is translated:

  * `match_uri_char_8_swar`, `match_header_value_char_8_swar`: every `const X: T = e;` / `let x = e;`
    and the tail expression, over the expression subset  literals | names | `uniform_block(e)` |
    `usize::from_ne_bytes(block)` | `offsetnz(e)` | `e.wrapping_sub(e)` | `!e` | `e & e` | `e | e` |
    `e ^ e` | parentheses  (Rust precedence: unary, method call  >  &  >  ^  >  |)
  * pinned token-for-token (the hand-written `Hx/Scan/Swar.lean` was written from exactly this text; a
    change is a translator failure, reported by ./check for the properties that import the generated
    module): `BLOCK_SIZE`, `ByteBlock`, `uniform_block`, `offsetnz`, `match_block`, `match_tail`, and the
    three `match_*_vectored` loops.

Anything outside this subset is a hard failure (exit 1), never a silent skip; on failure a compiling stub
with `sourceOk := false` is written, so that every theorem about the generated code fails.
"""
import sys, os, re, hashlib
sys.path.insert(0, os.path.dirname(os.path.abspath(__file__)))
from neon2lean import tokenize, split_items, num, Fail

KERNELS = ["match_uri_char_8_swar", "match_header_value_char_8_swar"]
PIN_FILE = os.path.join(os.path.dirname(os.path.abspath(__file__)), "swar_rs.pinned.txt")
PINNED_FNS = ["uniform_block", "offsetnz", "match_block", "match_tail",
              "match_uri_vectored", "match_header_value_vectored", "match_header_name_vectored"]
PINNED_CONSTS = ["BLOCK_SIZE"]


class P:
    def __init__(self, toks):
        self.t, self.i = toks, 0

    def peek(self, k=0):
        return self.t[self.i + k] if self.i + k < len(self.t) else None

    def eat(self, x=None):
        tok = self.peek()
        if tok is None or (x is not None and tok != x):
            raise Fail("expected %r, found %r near: %s" % (x, tok, " ".join(self.t[max(0, self.i - 6):self.i + 6])))
        self.i += 1
        return tok

    # precedence climbing: | (1) < ^ (2) < & (3) < unary/postfix
    def expr(self, env, minp=1):
        lhs = self.unary(env)
        while True:
            op = self.peek()
            prec = {"|": 1, "^": 2, "&": 3}.get(op)
            if prec is None or prec < minp:
                return lhs
            self.eat()
            rhs = self.expr(env, prec + 1)
            lhs = "(%s %s %s)" % (lhs, {"|": "|||", "^": "^^^", "&": "&&&"}[op], rhs)

    def unary(self, env):
        if self.peek() == "!":
            self.eat()
            return "(~~~%s)" % self.unary(env)
        return self.postfix(env)

    def postfix(self, env):
        e = self.atom(env)
        while self.peek() == ".":
            self.eat(".")
            m = self.eat()
            if m != "wrapping_sub":
                raise Fail("method ." + m)
            self.eat("(")
            a = self.expr(env)
            self.eat(")")
            e = "(%s - %s)" % (e, a)
        return e

    def atom(self, env):
        tok = self.peek()
        if tok is None:
            raise Fail("unexpected end of expression")
        if tok == "(":
            self.eat()
            e = self.expr(env)
            self.eat(")")
            return e
        if re.match(r"^(0x|[0-9])", tok):
            self.eat()
            return "(%d : Byte)" % num(tok)
        if re.match(r"^[A-Za-z_]", tok):
            self.eat()
            if tok == "usize" and self.peek() == "::":
                self.eat("::")
                f = self.eat()
                if f != "from_ne_bytes":
                    raise Fail("usize::" + f)
                self.eat("(")
                a = self.eat()
                if a != "block":
                    raise Fail("from_ne_bytes of " + a)
                self.eat(")")
                return "(wordOfBytes w le block)"
            if self.peek() == "(":
                self.eat("(")
                a = self.expr(env)
                self.eat(")")
                if tok == "uniform_block":
                    return "(uniform w %s)" % a
                if tok == "offsetnz":
                    return "(offsetnz w le %s)" % a
                raise Fail("call of " + tok)
            if tok not in env:
                raise Fail("unknown name " + tok)
            return env[tok]
        raise Fail("unexpected token " + tok)


def translate_kernel(name, toks):
    # fn NAME ( block : ByteBlock ) -> usize { body }
    p = P(toks)
    while p.peek() != "fn":
        p.eat()
    p.eat("fn"); p.eat(name); p.eat("(")
    if [p.eat(), p.eat(), p.eat()] != ["block", ":", "ByteBlock"]:
        raise Fail(name + ": parameter list")
    p.eat(")"); p.eat("->"); p.eat("usize"); p.eat("{")
    env, lines = {}, []
    while True:
        t = p.peek()
        if t in ("const", "let"):
            p.eat()
            v = p.eat()
            if p.peek() == ":":
                p.eat(":")
                ty = p.eat()
                if ty not in ("u8", "usize"):
                    raise Fail("%s: type %s" % (name, ty))
            p.eat("=")
            e = p.expr(env)
            p.eat(";")
            lv = v if v != "x" else "x"
            lines.append("  let %s := %s" % (lv, e))
            env[v] = lv
        else:
            e = p.expr(env)
            p.eat("}")
            if p.peek() is not None:
                raise Fail(name + ": trailing tokens")
            lines.append("  " + e)
            break
    return "def %s (w : Nat) (le : Bool) (block : List Byte) : Option Nat :=\n%s\n" % (name, "\n".join(lines))


BACKEND = """
/-- the SWAR backend with the generated kernels inside the (pinned) loops of `Hx.Scan.Swar` -/
def backend (w : Nat) (le : Bool) : Backend :=
  ⟨fun l => rangeLoop w (match_uri_char_8_swar w le) isUri (l.length + 1) l,
   fun l => rangeLoop w (match_header_value_char_8_swar w le) isValue (l.length + 1) l,
   nameScanner w⟩
"""

STUB = """/- GENERATED by /verif/tools/swar2lean.py — TRANSLATION FAILED: see the check log. -/
import Hx.Scan.Swar
namespace Hx.Gen.Swar
open Hx Hx.Swar

def sourceOk : Bool := false
def match_uri_char_8_swar (_ : Nat) (_ : Bool) (_ : List Byte) : Option Nat := none
def match_header_value_char_8_swar (_ : Nat) (_ : Bool) (_ : List Byte) : Option Nat := none
def backend (_ : Nat) (_ : Bool) : Backend := ⟨fun _ => none, fun _ => none, fun _ => none⟩

end Hx.Gen.Swar
"""


def main():
    repo, lean = sys.argv[1], sys.argv[2]
    out = os.path.join(lean, "Hx", "Gen", "Swar.lean")
    try:
        src = open(os.path.join(repo, "src", "simd", "swar.rs")).read()
        sha = hashlib.sha256(src.encode()).hexdigest()[:12]
        # (the unit tests and the cfg(httparse_verif) accessors that follow them are not translated)
        cut = min([src.find(m) for m in ("#[test]", "#[cfg(test)]") if src.find(m) >= 0] or [len(src)])
        toks = tokenize(src[:cut])
        items, consts = split_items(toks)
        pinned_now = []
        for c in PINNED_CONSTS:
            if c not in consts:
                raise Fail("missing const " + c)
            pinned_now.append("const %s := %s" % (c, " ".join(consts[c])))
        ti = [i for i in range(len(toks) - 1) if toks[i] == "type" and toks[i + 1] == "ByteBlock"]
        if len(ti) != 1:
            raise Fail("type ByteBlock not found exactly once")
        e, depth = ti[0], 0
        while not (toks[e] == ";" and depth == 0):
            depth += {"[": 1, "]": -1}.get(toks[e], 0)
            e += 1
        pinned_now.append("type := " + " ".join(toks[ti[0]:e + 1]))
        for f in PINNED_FNS:
            if f not in items:
                raise Fail("missing function " + f)
            body = [t for t in items[f]]
            pinned_now.append("fn %s := %s" % (f, " ".join(body)))
        text_now = "\n".join(pinned_now) + "\n"
        if "--pin" in sys.argv:
            open(PIN_FILE, "w").write(text_now)
            print("swar2lean: pinned %d items" % len(pinned_now))
        pinned = open(PIN_FILE).read() if os.path.exists(PIN_FILE) else ""
        if pinned != text_now:
            a, b = pinned.splitlines(), text_now.splitlines()
            diff = [x.split(" := ")[0] for x, y in zip(b, a + [""] * len(b)) if x != y]
            raise Fail("pinned text of %s differs from the text Hx/Scan/Swar.lean was written from" % (diff or "the item list"))
        known = set(PINNED_FNS) | set(KERNELS)
        extra = [k for k in items if k not in known and not k.startswith("_verif") and not k.startswith("test_")]
        if extra:
            raise Fail("untranslated functions: %s" % extra)
        parts = [translate_kernel(k, items[k]) for k in KERNELS if k in items]
        if len(parts) != len(KERNELS):
            raise Fail("missing kernel")
        text = ("/- GENERATED by /verif/tools/swar2lean.py from src/simd/swar.rs — do not edit. -/\n"
                "import Hx.Scan.Swar\nnamespace Hx.Gen.Swar\nopen Hx Hx.Swar\n\n"
                "def sourceOk : Bool := true\n\n" + "\n".join(parts) + BACKEND + "\nend Hx.Gen.Swar\n")
        rc = 0
        print("swar2lean: translated %d kernels, pinned %d items (source sha %s)" % (len(parts), len(pinned_now), sha))
    except Fail as e:
        text, rc = STUB, 1
        print("swar2lean: FAILED: %s" % e)
    os.makedirs(os.path.dirname(out), exist_ok=True)
    old = open(out).read() if os.path.exists(out) else None
    if old != text:
        open(out, "w").write(text)
    sys.exit(rc)


if __name__ == "__main__":
    main()
