#!/usr/bin/env python3
"""Regenerates /verif/MANIFEST.json from tools/props.py and tools/claims.json.
claims.json: {"<Cxx>": {"text": ..., "note": ..., "technique": ..., "design_ref": ...}} for claimed
properties; everything else in properties.jsonl goes to not_applicable with its reason from
claims.json["_not_applicable"]."""
import json, os, sys
V = os.path.dirname(os.path.dirname(os.path.abspath(__file__)))
claims = json.load(open(os.path.join(V, "tools", "claims.json")))
na = claims.get("_not_applicable", {})
props = [json.loads(l)["id"] for l in open(os.path.join(V, "properties.jsonl"))]
hook_commits = claims.get("_hook_commits", [])
m = {
    "version": 1,
    "setup_cmd": "cd /verif && ./check --setup",
    "hooks": {
        "guard": "httparse_verif",
        "enable": "RUSTFLAGS=\"--cfg httparse_verif\" (the harness crate /verif/harness depends on /repo by path; ./check sets the flag)",
        "baseline_off_cmd": "cd /repo && cargo test --workspace --no-fail-fast --offline",
        "source_commits": hook_commits,
        "add_only": True,
    },
    "engines": [{
        "name": "lean-proof+correspondence",
        "path": "/verif/check",
        "serves_properties": [p for p in props if p in claims],
        "kind_free_text": "Lean 4 theorems about a hand-written model (/verif/lean/Hx), tied to /repo on every run by a differential correspondence check (Rust harness on the real code vs. compiled Lean driver on the model, judged by the same chk predicates the theorems are about) and by translators for the parts that cannot execute here (NEON kernels, cfg lattice)",
    }],
    "checks": [],
    "not_applicable": [],
    "notes": claims.get("_notes", ""),
}
for p in props:
    if p in claims:
        c = claims[p]
        m["checks"].append({
            "property_id": p,
            "quick_cmd": "./check %s --tier quick" % p,
            "thorough_cmd": "./check %s --tier thorough" % p,
            "evidence_file": "/verif/evidence/%s.json" % p,
            "replay_cmd_template": "./check %s --replay {path}" % p,
            "engine": "lean-proof+correspondence",
            "level_claimed": {"category": "proof", "text": c["text"], "design_ref": c.get("design_ref", "DESIGN.md §6")},
            "level_note": c["note"],
            "technique": c.get("technique", "Lean 4 machine-checked proof about a model + differential correspondence check model vs. code"),
        })
    else:
        m["not_applicable"].append({"property_id": p, "reason": na.get(p, "not yet claimed: theorems for this property are still being written (see DESIGN.md §9)")})
json.dump(m, open(os.path.join(V, "MANIFEST.json"), "w"), indent=1)
print("claimed:", [c["property_id"] for c in m["checks"]])
