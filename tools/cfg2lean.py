#!/usr/bin/env python3
"""
cfg2lean.py <repo> <leandir> — regenerates Hx/Gen/Cfg.lean from <repo>/src/simd/mod.rs.

The `#[cfg(...)]` lattice that selects exactly one scanner provider is a compile-time object; it is
translated (not executed): every gated item of src/simd/mod.rs becomes a Lean function
`Flags → Bool`, the providers (`pub use self::X::*`) and modules (`mod X;`) are listed, and the
modules each provider refers to (`super::X`, `crate::simd::X`, `use super::X`) are extracted.  It
also lists every `cfg!` / `#[cfg]` / `debug_assert!` site of src/lib.rs, src/iter.rs and
src/macros.rs outside `mod tests`, so that C13 can check that no other profile- or
architecture-dependent construct exists in the parser core.
Items gated by `httparse_verif` (the verification hooks) are skipped.
"""
import sys, re, os, hashlib


class Fail(Exception):
    pass


def strip_comments(s):
    s = re.sub(r"/\*.*?\*/", "", s, flags=re.S)
    return re.sub(r"//[^\n]*", "", s)


def parse_cfg(s):
    toks = re.findall(r'[A-Za-z_][A-Za-z0-9_]*|"[^"]*"|[(),=]', s)
    pos = [0]

    def peek():
        return toks[pos[0]] if pos[0] < len(toks) else None

    def eat(x=None):
        t = peek()
        if t is None or (x is not None and t != x):
            raise Fail("cfg parse error in %r at %r" % (s, t))
        pos[0] += 1
        return t

    def expr():
        t = eat()
        if t in ("all", "any", "not"):
            eat("(")
            args = []
            while peek() != ")":
                args.append(expr())
                if peek() == ",":
                    eat(",")
            eat(")")
            if t == "not":
                if len(args) != 1:
                    raise Fail("not() arity")
                return ("not", args[0])
            return (t, args)
        if peek() == "=":
            eat("=")
            v = eat().strip('"')
            return ("kv", t, v)
        return ("flag", t)

    e = expr()
    if peek() is not None:
        raise Fail("trailing tokens in cfg " + s)
    return e


FLAGS = {"httparse_simd": "f.simd", "httparse_simd_target_feature_sse42": "f.sse42",
         "httparse_simd_target_feature_avx2": "f.avx2", "httparse_simd_neon_intrinsics": "f.neonIntr"}
ARCH = {"x86": "Arch.x86", "x86_64": "Arch.x86_64", "aarch64": "Arch.aarch64"}


def to_lean(e):
    k = e[0]
    if k == "flag":
        if e[1] in FLAGS:
            return FLAGS[e[1]]
        raise Fail("unknown cfg flag " + e[1])
    if k == "kv":
        if e[1] == "target_arch" and e[2] in ARCH:
            return "(f.arch == %s)" % ARCH[e[2]]
        raise Fail("unknown cfg key/value %s=%s" % (e[1], e[2]))
    if k == "not":
        return "!(%s)" % to_lean(e[1])
    if k == "all":
        return "(" + " && ".join(to_lean(x) for x in e[1]) + ")" if e[1] else "true"
    if k == "any":
        return "(" + " || ".join(to_lean(x) for x in e[1]) + ")" if e[1] else "false"
    raise Fail("bad cfg expr")


def mentions_verif(e):
    if e[0] == "flag":
        return e[1] == "httparse_verif"
    if e[0] == "not":
        return mentions_verif(e[1])
    if e[0] in ("all", "any"):
        return any(mentions_verif(x) for x in e[1])
    return False


def balanced(s, i, open_c, close_c):
    depth = 0
    j = i
    while j < len(s):
        if s[j] == open_c:
            depth += 1
        elif s[j] == close_c:
            depth -= 1
            if depth == 0:
                return j
        j += 1
    raise Fail("unbalanced")


def items_of_mod_rs(src):
    """[(cfg expr or None, kind, name, inline body or None)] in source order"""
    s = strip_comments(src)
    out = []
    i = 0
    pending = None
    while i < len(s):
        m = re.compile(r"\s*").match(s, i)
        i = m.end()
        if i >= len(s):
            break
        if s.startswith("#[", i):
            j = balanced(s, i + 1, "[", "]")
            attr = s[i + 2:j].strip()
            i = j + 1
            if attr.startswith("cfg(") and attr.endswith(")"):
                e = parse_cfg(attr[4:-1])
                pending = e if pending is None else ("all", [pending, e])
            continue
        m = re.compile(r"(pub\s+)?mod\s+([A-Za-z_0-9]+)\s*;").match(s, i)
        if m:
            out.append((pending, "mod", m.group(2), None)); pending = None; i = m.end(); continue
        m = re.compile(r"(pub\s+)?mod\s+([A-Za-z_0-9]+)\s*\{").match(s, i)
        if m:
            j = balanced(s, m.end() - 1, "{", "}")
            out.append((pending, "mod", m.group(2), s[m.end():j])); pending = None; i = j + 1; continue
        m = re.compile(r"pub\s+use\s+self::([A-Za-z_0-9]+)::\*\s*;").match(s, i)
        if m:
            out.append((pending, "use", m.group(1), None)); pending = None; i = m.end(); continue
        raise Fail("unrecognised item in src/simd/mod.rs at: %r" % s[i:i + 60])
    return out


def deps_of(text):
    t = strip_comments(text)
    t = re.sub(r"#\[cfg\(httparse_verif\)\].*", "", t, flags=re.S) if "httparse_verif" in t else t
    d = set(re.findall(r"super::([a-z0-9_]+)::", t)) | set(re.findall(r"crate::simd::([a-z0-9_]+)::", t)) | set(re.findall(r"use\s+super::([a-z0-9_]+)\s*;", t))
    return sorted(x for x in d if x not in ("verif",))


def drop_verif_items(src):
    """remove every item gated by #[cfg(httparse_verif)] (the verification hooks)"""
    while True:
        i = src.find("#[cfg(httparse_verif)]")
        if i < 0:
            return src
        j = i + len("#[cfg(httparse_verif)]")
        # the item ends at the first `;` at depth 0 or at the matching `}` of its first `{`
        depth = 0
        k = j
        while k < len(src):
            ch = src[k]
            if ch == "{":
                depth += 1
            elif ch == "}":
                depth -= 1
                if depth == 0:
                    k += 1
                    break
            elif ch == ";" and depth == 0:
                k += 1
                break
            k += 1
        src = src[:i] + src[k:]


def cfg_sites(repo):
    sites = []
    for f in ("src/lib.rs", "src/iter.rs", "src/macros.rs"):
        src = open(os.path.join(repo, f)).read()
        cut = src.find("#[cfg(test)]\nmod tests")
        if cut >= 0:
            src = src[:cut]
        src = strip_comments(src)
        src = drop_verif_items(src)
        for m in re.finditer(r"cfg!\s*\(([^)]*)\)|#\[cfg\(([^\]]*)\)\]|#!\[cfg_attr\(([^\]]*)\)\]|debug_assert(?:_eq)?!", src):
            txt = m.group(0)
            inner = (m.group(1) or m.group(2) or m.group(3) or "").strip()
            if "httparse_verif" in inner:
                continue
            kind = "debug_assert" if txt.startswith("debug_assert") else ("cfg!" if txt.startswith("cfg!") else "attr")
            sites.append((f, kind, inner))
    return sites


def main():
    repo, leandir = sys.argv[1], sys.argv[2]
    out = os.path.join(leandir, "Hx", "Gen", "Cfg.lean")
    hdr = ("import Hx.Basic\nnamespace Hx.Gen.Cfg\n\n"
           "inductive Arch where | x86 | x86_64 | aarch64 | other\n  deriving DecidableEq, Repr\n\n"
           "/-- the cfg flags `build.rs` may emit, and the target architecture -/\n"
           "structure Flags where\n  simd : Bool\n  sse42 : Bool\n  avx2 : Bool\n  neonIntr : Bool\n  arch : Arch\n  deriving DecidableEq, Repr\n\n")
    try:
        src = open(os.path.join(repo, "src", "simd", "mod.rs")).read()
        items = items_of_mod_rs(src)
        mods, uses, defs = [], [], []
        bodies = {}
        for (e, kind, name, body) in items:
            if e is not None and mentions_verif(e):
                continue
            cond = to_lean(e) if e is not None else "true"
            if kind == "mod":
                fn = "mod_" + name
                if fn in [d[0] for d in defs]:
                    raise Fail("module %s declared twice" % name)
                defs.append((fn, cond)); mods.append(name)
                bodies[name] = body
            else:
                fn = "use_" + name
                defs.append((fn, cond)); uses.append(name)
        deps = {}
        for name in uses:
            if bodies.get(name) is not None:
                text = bodies[name]
            else:
                p = os.path.join(repo, "src", "simd", name + ".rs")
                text = open(p).read()
                cut = text.find("#[test]")
                if cut >= 0:
                    text = text[:cut]
            deps[name] = [d for d in deps_of(text) if d != name]
        sites = cfg_sites(repo)
        # src/simd/runtime.rs (feature cache + dispatch) is modelled by hand in Hx/Scan/Dispatch.lean
        # (step machine for the C13 race theorem, `backendFor`); its text is pinned: a change there means the
        # hand-written model no longer applies and the theorems about it no longer speak about the code
        rt = open(os.path.join(repo, "src", "simd", "runtime.rs")).read()
        rt = drop_verif_items(strip_comments(rt))
        rt = re.sub(r"#\[allow\(missing_docs\)\]\s*", "", rt)
        norm = " ".join(re.findall(r"[A-Za-z_][A-Za-z0-9_]*!?|\"[^\"]*\"|\d+|::|=>|==|[^\sA-Za-z0-9_]", rt))
        want = open(os.path.join(os.path.dirname(os.path.abspath(__file__)), "runtime_rs.pinned.txt")).read().strip()
        if norm != want:
            raise Fail("src/simd/runtime.rs changed; the hand-written model Hx/Scan/Dispatch.lean (feature cache step machine, dispatch) no longer applies")
        L = ["/- GENERATED by /verif/tools/cfg2lean.py from src/simd/mod.rs — do not edit. -/\n" + hdr, "def sourceOk : Bool := true\n"]
        for fn, cond in defs:
            L.append("def %s (f : Flags) : Bool := %s" % (fn, cond))
        L.append("\n/-- providers: modules re-exported with `pub use self::X::*` -/")
        L.append("def providers : List (String × (Flags → Bool)) :=\n  [" + ", ".join('("%s", use_%s)' % (n, n) for n in uses) + "]")
        L.append("\n/-- modules and the condition under which each is compiled -/")
        L.append("def modules : List (String × (Flags → Bool)) :=\n  [" + ", ".join('("%s", mod_%s)' % (n, n) for n in mods) + "]")
        L.append("\n/-- the sibling modules each provider refers to -/")
        L.append("def deps : List (String × List String) :=\n  [" + ", ".join('("%s", [%s])' % (n, ", ".join('"%s"' % d for d in deps[n])) for n in uses) + "]")
        L.append("\n/-- every cfg!/#[cfg]/debug_assert! site of the parser core outside `mod tests` (file, kind, condition) -/")
        L.append("def coreCfgSites : List (String × String × String) :=\n  [" + ",\n   ".join('("%s", "%s", "%s")' % (f, k, c.replace('"', "'")) for (f, k, c) in sites) + "]")
        text = "\n".join(L) + "\n\nend Hx.Gen.Cfg\n"
        rc = 0
        print("cfg2lean: %d gated items, providers %s, modules %s, deps %s, %d core cfg sites (sha %s)" % (len(defs), uses, mods, deps, len(sites), hashlib.sha256(src.encode()).hexdigest()[:16]))
    except Fail as e:
        text = ("/- GENERATED by /verif/tools/cfg2lean.py — TRANSLATION FAILED: see the check log. -/\n" + hdr +
                "def sourceOk : Bool := false\n"
                "def providers : List (String × (Flags → Bool)) := []\n"
                "def modules : List (String × (Flags → Bool)) := []\n"
                "def deps : List (String × List String) := []\n"
                "def coreCfgSites : List (String × String × String) := []\n\nend Hx.Gen.Cfg\n")
        rc = 1
        print("cfg2lean: FAILED: %s" % e)
    os.makedirs(os.path.dirname(out), exist_ok=True)
    old = open(out).read() if os.path.exists(out) else None
    if old != text:
        open(out, "w").write(text)
    sys.exit(rc)


if __name__ == "__main__":
    main()
