"""Per-property tables for /verif/check: which case families (and build variants) tie each
property's theorems to the real code, and whether the theorem determines its projection."""

def runs(quick, thorough=None):
    return {"quick": quick, "thorough": thorough or quick}

D, R = "dev", "release"

PROPS = {
    "C01": dict(runs=runs([("core", D), ("chunk", D), ("place", D), ("place", R), ("scan", D), ("chunk", R), ("hist", D)],
                          [("core", D), ("core", R), ("block", D), ("chunk", D), ("chunk", R), ("place", D), ("place", R), ("scan", D), ("scan", R), ("entries", D), ("hist", D)]),
                assumptions=["memory accesses are observed through guard pages and debug assertions, not proved: a stray access that stays inside mapped memory and changes no result is invisible",
                             "NEON, big-endian and 32-bit paths are executed only under Miri (foreign-target stage), at the fidelity of its interpretation of the intrinsics"]),
    "C02": dict(runs=runs([("split", D), ("split", R), ("core", D)], [("split", D), ("split", R), ("core", D), ("block", D)])),
    "C03": dict(runs=runs([("core", D), ("core", R), ("block", D), ("chunk", D), ("place", D)])),
    "C04": dict(runs=runs([("core", D), ("core", R), ("block", D), ("entries", D)]),
                assumptions=["the static half (lifetimes; no safe program can keep a field past its buffer) is decided by rustc's borrow checker and is not claimed as proved"]),
    "C05": dict(runs=runs([("core", D), ("core", R), ("core", "dev-native"), ("block", D), ("utf8", D), ("utf8", R), ("place", D)])),
    "C06": dict(runs=runs([("core", D), ("core", R), ("core", "dev-native"), ("core", "dev-nosimd"), ("utf8", D), ("utf8", R), ("place", D)]), determining=True),
    "C07": dict(runs=runs([("core", D), ("core", R), ("place", D)]), determining=True),
    "C08": dict(runs=runs([("core", D), ("core", R), ("core", "dev-sse42"), ("core", "dev-nosimd"), ("core", "dev-native"), ("block", D), ("place", D)]), determining=True),
    "C09": dict(runs=runs([("chunk", D), ("chunk", R)]), determining=True),
    "C10": dict(runs=runs([("core", D), ("core", R), ("block", D), ("classes", D)]), determining=True),
    "C11": dict(runs=runs([], [])),   # two-pass witness pipeline, see special_c11
    "C12": dict(runs=runs([("scan", D), ("scan", "dev-sse42"), ("scan", "dev-avx2"), ("scan", "dev-nosimd"), ("scan", "dev-native"), ("swar", D), ("swar", "dev-native"), ("classes", D)],
                          [("scan", D), ("scan", R), ("scan", "dev-sse42"), ("scan", "dev-avx2"), ("scan", "dev-nosimd"), ("scan", "dev-native"), ("swar", D), ("swar", "dev-native"), ("classes", D)]), determining=True,
                trusted=["lane semantics of the x86 intrinsics (validated against the real instructions by the scan family)",
                         "lane semantics of the NEON intrinsics and tools/neon2lean.py, tools/swar2lean.py (validated under Miri for aarch64 / s390x / i686 by the foreign-target stage)"]),
    "C13": dict(runs=runs([("place", D), ("place", R), ("scan", D), ("scan", R), ("chunk", D), ("chunk", R), ("core", D), ("core", R)]),
                assumptions=["weak-memory behaviour of the relaxed atomic cache is modelled as atomic steps on one location",
                             "'every switch combination compiles' is observed by building, not proved"]),
    "C14": dict(runs=runs([("block", D), ("block", R), ("core", D), ("place", D)]), determining=True),
    "C15": dict(runs=runs([("cfgpair", D), ("cfgpair", R)])),
    "C16": dict(runs=runs([("entries", D), ("entries", R), ("hrel", D)])),
    "C17": dict(runs=runs([("core", D), ("entries", D), ("entries", R), ("caps", D), ("place", D)])),
    "C18": dict(runs=runs([("hist", D), ("hist", R)])),
    "C20": dict(runs=runs([("core", D), ("block", D), ("chunk", D)]),
                assumptions=["wall-clock time is not modelled; the claim is about counted cursor travel and block loads"]),
}


# ------------------------------------------------------------------------------------------------
# property-specific extra stages

C13_VARIANTS = {
    # variant: BuildEnv bits  std miri disable ge159 parsed disct flok sse42 avx2
    "dev": "100110100", "release": "100110100",
    "dev-sse42": "100110110", "dev-avx2": "100110111", "dev-nosimd": "101110100",
    "dev-runtimeonly": "100111111", "dev-nostd": "000110100", "dev-native": "100110111",
    "release-sse42": "100110110", "release-avx2": "100110111", "release-nosimd": "101110100", "release-nostd": "000110100",
}


def special_c11_one(tier, seed, th, chk, variant):
    """two passes: (1) every generated case on the real code; for each Partial result the MODEL picks a
    completion witness from the finite completion set (driver witness); (2) the real code must
    complete on buffer ++ witness (or one of the two stated exceptions applies)."""
    import subprocess, os, time, glob, json
    from concurrent.futures import ThreadPoolExecutor
    cdir = os.path.join(chk.BUILD, "cache", th, "c11-%s-%s-%s" % (tier, seed, variant))
    res_path = os.path.join(cdir, "result.json")
    with chk.Lock("c11-" + tier + "-" + variant):
        if os.path.exists(res_path):
            r = json.load(open(res_path)); r["cached"] = True
            return [r]
        t0 = time.time()
        os.makedirs(cdir, exist_ok=True)
        binp, err = chk.build_harness(variant)
        if binp is None:
            return [{"family": "witness", "variant": variant, "build_failed": True, "log": err, "fails": [], "stats": {}, "samples": {}, "n": 0, "wall": 0}]
        fams = ["core", "chunk"] + (["block"] if tier == "thorough" else ["block"])
        allc = os.path.join(cdir, "all.cases")
        with open(allc, "w") as f:
            for fam in fams:
                subprocess.run([binp, "gen", fam, tier, str(seed)], stdout=f, env=chk.ENV, check=True)
        chk.sh("sort -u -o %s %s" % (allc, allc), check=True)
        n1 = sum(1 for _ in open(allc))
        for f in glob.glob(os.path.join(cdir, "p1.*")):
            os.remove(f)
        chk.sh(["split", "-n", "l/%d" % chk.NPROC, "-d", allc, os.path.join(cdir, "p1.")])
        def work(s):
            obs = s + ".obs"
            chk.run_shard(binp, s, obs, 900)
            with open(s + ".wit", "w") as o:
                p1 = subprocess.Popen(["grep", " => P"], stdin=open(obs), stdout=subprocess.PIPE)
                subprocess.run([chk.DRIVER, "witness"], stdin=p1.stdout, stdout=o, env=chk.ENV)
                p1.wait()
            os.remove(obs); os.remove(s)
            return s + ".wit"
        with ThreadPoolExecutor(max_workers=chk.NPROC) as ex:
            wits = list(ex.map(work, sorted(glob.glob(os.path.join(cdir, "p1.[0-9]*")))))
        witc = os.path.join(cdir, "wit.cases")
        chk.sh("cat %s | sort -u > %s" % (" ".join(wits), witc), check=True)
        for w in wits:
            os.remove(w)
        os.remove(allc)
        n2 = sum(1 for _ in open(witc))
        fails, stats, samples = chk.run_cases(binp, witc, cdir)
        os.remove(witc)
        stats["cases.pass1"] = n1
        r = {"family": "witness(core+block+chunk)", "variant": variant, "tier": tier, "seed": seed, "n": n2, "fails": chk.cap_per_prop(fails), "nfails": len(fails),
             "stats": stats, "samples": samples, "wall": time.time() - t0, "cached": False}
        json.dump(r, open(res_path, "w"))
        return [r]


def special_c11(tier, seed, th, chk):
    """the witness pipeline under the default build and under `-C target-cpu=native` (code gated by target
    features this CPU has beyond AVX2 would otherwise never run)"""
    return special_c11_one(tier, seed, th, chk, "dev") + special_c11_one(tier, seed, th, chk, "dev-native")


BORROW_ERRORS = {"E0597", "E0502", "E0499", "E0505", "E0506", "E0716", "E0515", "E0521", "E0712", "E0713", "E0503", "E0495", "E0621", "E0623"}


def special_c04(tier, seed, th, chk):
    """Static half of C04 (NOT a proof; a regression corpus): minimal client programs that let a field outlive /
    alias-mutate its buffer or array must be rejected by the borrow checker when compiled against the current
    tree; a few usage patterns must keep compiling."""
    import subprocess, os, glob, re, time
    t0 = time.time()
    binp, err = chk.build_harness("dev")
    if binp is None:
        return [{"family": "static-corpus", "variant": "dev", "build_failed": True, "log": err, "fails": [], "stats": {}, "samples": {}, "n": 0, "wall": 0}]
    deps = os.path.join(os.path.dirname(binp), "deps")
    rlibs = sorted(glob.glob(os.path.join(deps, "libhttparse-*.rlib")), key=os.path.getmtime)
    fails, samples, n = [], {}, 0
    if not rlibs:
        fails.append("FAIL C04 model | no httparse rlib found to compile the static corpus against | static | " + deps)
    else:
        outdir = os.path.join(chk.BUILD, "static_c04")
        os.makedirs(outdir, exist_ok=True)
        from concurrent.futures import ThreadPoolExecutor
        progs = [(kind, prog) for kind in ("reject", "accept") for prog in sorted(glob.glob(os.path.join(chk.VERIF, "static_c04", kind, "*.rs")))]

        def comp(kp):
            kind, prog = kp
            return subprocess.run(["rustc", "--edition", "2021", "--crate-type", "bin", "--emit=metadata", "--cfg", "httparse_verif",
                                   "--extern", "httparse=" + rlibs[-1], "-L", "dependency=" + deps, prog,
                                   "-o", os.path.join(outdir, kind + "_" + os.path.basename(prog) + ".rmeta")],
                                  capture_output=True, text=True, env=chk.ENV)
        with ThreadPoolExecutor(max_workers=chk.NPROC) as ex:
            results = list(ex.map(comp, progs))
        for (kind, prog), r in zip(progs, results):
            n += 1
            codes = set(re.findall(r"error\[(E\d+)\]", r.stderr))
            name = "%s/%s" % (kind, os.path.basename(prog))
            if kind == "reject":
                if r.returncode == 0:
                    fails.append("FAIL C04 hard | a client program that keeps a field / the headers slice past its buffer or array (or mutates it while live) is ACCEPTED by the compiler | static %s | rustc exit 0" % name)
                elif not (codes & BORROW_ERRORS):
                    fails.append("FAIL C04 model | corpus program is rejected, but not by the borrow checker (API change?) | static %s | %s" % (name, r.stderr[-300:].replace("\n", " ")))
                else:
                    samples.setdefault("static." + kind, "%s -> %s" % (name, sorted(codes)))
            else:
                if r.returncode != 0:
                    fails.append("FAIL C04 hard | a usage pattern that must keep compiling is rejected | static %s | %s" % (name, r.stderr[-300:].replace("\n", " ")))
                else:
                    samples.setdefault("static." + kind, name + " -> compiles")
    return [{"family": "static-corpus", "variant": "dev", "n": n, "fails": fails, "nfails": len(fails),
             "stats": {"cases.static_programs": n, "nontrivial.static": n}, "samples": samples, "wall": time.time() - t0, "cached": False}]


def large_stage(tier, seed, th, chk):
    """G10: adversarial large inputs (runs of folds, ignored lines, whitespace, near-miss SIMD blocks, many
    headers, …; 32 KiB/256 KiB quick, 128 KiB/1 MiB thorough) under dev (opt 1 + debug assertions), release and
    a true opt-level-0 debug build.  One run, cached per tree; its findings are labelled for the property
    they concern: worker death / watchdog → C01 and C20; Complete(n) with n ≠ the known head length, or not
    Complete where the input is a complete head → C03; cursor travel / block peeks beyond the proved bounds, or
    time growing faster than linearly (re-measured three times) → C20."""
    import subprocess, time, os, json
    cdir = os.path.join(chk.BUILD, "cache", th, "large-%s" % tier)
    res_path = os.path.join(cdir, "result.json")
    with chk.Lock("large"):
        if os.path.exists(res_path):
            out = json.load(open(res_path))
            for r in out:
                r["cached"] = True
            return out
        os.makedirs(cdir, exist_ok=True)
        small, factor = (32 * 1024, 8) if tier == "quick" else (128 * 1024, 8)
        out = []
        # dev-nosimd / dev-sse42: the SWAR and the SSE4.2 scanners as *the* scanner (on this AVX2 machine they
        # otherwise only see the last < 32 bytes of a run), so that work they add shows in the time
        for variant in ("dev", "release", "dev-o0", "dev-nosimd", "dev-sse42", "dev-avx2"):
            t0 = time.time()
            binp, err = chk.build_harness(variant)
            if binp is None:
                out.append({"family": "large(G10)", "variant": variant, "build_failed": True, "log": err, "fails": [], "stats": {}, "samples": {}, "n": 0, "wall": 0})
                continue
            hung = []
            caprows = {}

            def measure(reps, only=None):
                try:
                    pr = subprocess.run([binp, "cost", str(small), str(factor), str(reps)] + ([only] if only else []), capture_output=True, text=True, env=chk.ENV, timeout=1800)
                    o, rc = pr.stdout, pr.returncode
                except subprocess.TimeoutExpired as ex:
                    o, rc = ((ex.stdout or b"").decode(errors="replace") if isinstance(ex.stdout, bytes) else (ex.stdout or "")), -14
                if rc != 0:
                    begun = [l for l in o.splitlines() if l.startswith("begin ")]
                    hung.append((begun[-1] if begun else "begin ?") + " rc=%s" % rc)
                rows = {}
                for l in o.splitlines():
                    t = l.split()
                    if len(t) == 4 and t[0] == "capcost":
                        caprows[t[1]] = (int(t[2].split("=")[1]), int(t[3].split("=")[1]))
                        continue
                    if len(t) < 6 or t[0] != "cost":
                        continue
                    kv = dict(x.split("=", 1) for x in t[3:] if "=" in x)
                    rows.setdefault(t[1], []).append({k: (int(v) if v.isdigit() else v) for k, v in kv.items()})
                return rows
            rows = measure(3 if variant == "dev-o0" else 7)
            fails, samples, n = [], {}, 0
            for h in hung:
                fam = h.split()[1] if len(h.split()) > 1 else "?"
                for p in ("C01", "C20"):
                    fails.append("FAIL %s hard | parsing an adversarial large input crashed or did not return within the 60 s watchdog | cost %s (hxharness cost, %s build) | %s" % (p, fam, variant, h))
            for fam, rs in rows.items():
                for r in rs:
                    n += 1
                    size = r["size"]
                    st = str(r.get("status", ""))
                    if fam != "partial-folds" and not (st.startswith("C:%d:" % size)):
                        fails.append("FAIL C03 hard | a complete head of known length is not reported as Complete(that length) | cost %s size=%d (%s build) | status=%s" % (fam, size, variant, st))
                    if fam == "many-small-headers-lf" and st.startswith("C:") and int(st.split(":")[2]) != (size - 16) // 4:
                        fails.append("FAIL C17 hard | number of exposed headers differs from the number of header lines | cost %s size=%d (%s build) | status=%s" % (fam, size, variant, st))
                    if fam == "many-small-headers" and st.startswith("C:") and int(st.split(":")[2]) != (size - 18) // 5:
                        fails.append("FAIL C17 hard | number of exposed headers differs from the number of header lines | cost %s size=%d (%s build) | status=%s" % (fam, size, variant, st))
                    if r["adv"] > size or r["pk"] + r["l16"] + r["l32"] > size + 8:
                        fails.append("FAIL C20 hard | cursor travel / number of block loads exceed the buffer length on an adversarial input | cost %s size=%d (%s build) | %s" % (fam, size, variant, r))
                if len(rs) == 2 and rs[0]["ns"] > 0 and variant != "dev-o0":
                    ratio = rs[1]["ns"] / rs[0]["ns"]
                    srat = rs[1]["size"] / rs[0]["size"]
                    samples["cost." + fam] = "size %d -> %d: %.1f us -> %.1f us (x%.1f for x%.1f bytes)" % (rs[0]["size"], rs[1]["size"], rs[0]["ns"] / 1e3, rs[1]["ns"] / 1e3, ratio, srat)
                    if ratio > 3 * srat:
                        worst = ratio
                        for _ in range(3):
                            rr = measure(9, fam).get(fam, [])
                            if len(rr) == 2 and rr[0]["ns"] > 0:
                                worst = min(worst, rr[1]["ns"] / rr[0]["ns"])
                        if worst > 3 * srat:
                            fails.append("FAIL C20 hard | parsing time grows faster than linearly on an adversarial family (x%.1f time for x%.1f bytes, persisted over 4 measurements) | cost %s (hxharness cost %d %d, %s build) | %s" % (worst, srat, fam, small, factor, variant, rs))
            # the same small message with a 16-slot and a 2^20-slot header array: work must not follow the capacity
            for entry, (t16, t1m) in sorted(dict(caprows).items()):
                n += 1
                samples["capcost." + entry] = "16 slots: %d ns, 2^20 slots: %d ns" % (t16, t1m)
                if t1m > 50 * t16 + 20000:
                    worst = t1m
                    for _ in range(3):
                        caprows.clear()
                        measure(9, "capacity")
                        if entry in caprows:
                            worst = min(worst, caprows[entry][1])
                    if worst > 50 * t16 + 20000:
                        fails.append("FAIL C20 hard | the time of one call follows the capacity of the header array, not the buffer length (%d ns with 16 slots, %d ns with 2^20 slots for the same %s message; persisted over 4 measurements) | cost capacity (hxharness cost %d %d 9 capacity, %s build) | %s" % (t16, worst, entry, small, factor, variant, entry))
            out.append({"family": "large(G10)", "variant": variant, "n": n, "fails": fails, "nfails": len(fails),
                        "stats": {"cases.large": n, "nontrivial.large": n}, "samples": samples, "wall": time.time() - t0, "cached": False})
        json.dump(out, open(res_path, "w"))
        return out



SCALE_PROPS = ("C02", "C03", "C06", "C07", "C08", "C10", "C11", "C16", "C17")


def scale_stage(tier, seed, th, chk):
    """G14 (see harness/src/gen.rs): each adversarial family at two small sizes (where the ordinary families tie
    the code to the model) and one huge size; every reported number must be the affine extrapolation of the two
    small observations, the kind of answer must be the same, and the entry points must agree.  One run per tree
    (dev and release), findings labelled for the property whose statement the deviation contradicts."""
    import subprocess, time, os, json, re
    cdir = os.path.join(chk.BUILD, "cache", th, "scale-%s" % tier)
    res_path = os.path.join(cdir, "result.json")
    with chk.Lock("scale"):
        if os.path.exists(res_path):
            out = json.load(open(res_path))
            for r in out:
                r["cached"] = True
            return out
        os.makedirs(cdir, exist_ok=True)
        big = (9 << 20) if tier == "quick" else (40 << 20)
        out = []
        for variant in ("dev", "release"):
            t0 = time.time()
            binp, err = chk.build_harness(variant)
            if binp is None:
                out.append({"family": "scale(G14)", "variant": variant, "build_failed": True, "log": err, "fails": [], "stats": {}, "samples": {}, "n": 0, "wall": 0})
                continue
            try:
                pr = subprocess.run([binp, "scale", str(big)], capture_output=True, text=True, env=chk.ENV, timeout=3000)
                o, rc = pr.stdout, pr.returncode
            except subprocess.TimeoutExpired as ex:
                o, rc = ((ex.stdout or b"").decode(errors="replace") if isinstance(ex.stdout, bytes) else (ex.stdout or "")), -14
            fails, samples, n = [], {}, 0

            def fail(props, note, key, detail):
                for p in sorted(set(props)):
                    fails.append("FAIL %s hard | %s | scale %s (hxharness scale %d %s, %s build) | %s" % (p, note, " ".join(key), big, key[0], variant, detail))
            if rc != 0:
                begun = [l for l in o.splitlines() if l.startswith("begin ")]
                last = (begun[-1] if begun else "begin ? ? ? ?").split()
                fail(("C01", "C20"), "parsing a scaled-up family member crashed or did not return within the 120 s watchdog", tuple(last[1:5]), "rc=%s" % rc)
            rows = {}
            line_cfg = {}
            for l in o.splitlines():
                t = l.split()
                if len(t) < 9 or t[0] != "scale":
                    continue
                key = tuple(t[1:5])           # family kind variation entry
                ln = int(t[6].split("=")[1])
                rest = " ".join(t[7:])
                line_cfg[key] = t[5]
                rows.setdefault(key, []).append((ln, t[7], [int(x) for x in re.findall(r"\d+", " ".join(t[8:]))], re.sub(r"\d+", "#", rest), rest))
            kind_props = {"req": "C06", "resp": "C07", "hdrs": "C08", "chunk": "C09"}
            for key, rs in sorted(rows.items()):
                rs.sort()
                n += 1
                if len(rs) != 3:
                    continue
                (l1, t1, v1, s1, r1), (l2, t2, v2, s2, r2), (l3, t3, v3, s3, r3) = rs
                kp = kind_props[key[1]]
                if not (t1 == t2):
                    continue      # the two small members already differ in kind: no extrapolation to make
                if t3 != t1:
                    props = ["C03"]
                    if t1 == "C":
                        props += [kp, "C16"] + (["C17"] if "TooManyHeaders" in t3 else []) + (["C10"] if t3.startswith("E") else []) + (["C02", "C11"] if t3 == "P" else [])
                    elif t1 == "P":
                        props += ["C02"] + (["C10", "C17"] if t3.startswith("E") else [kp])
                    else:
                        props += ["C10", kp] + (["C11", "C02"] if t3 == "P" else [])
                    fail(props, "the answer changes kind when the same message is scaled up (%s at %d and %d bytes, %s at %d bytes)" % (t1, l1, l2, t3, l3), key, "small: [%s] huge: [%s]" % (r2, r3))
                    continue
                if not (s1 == s2 == s3 and len(v1) == len(v2) == len(v3)):
                    if s1 == s2:
                        fail(["C03", kp, "C17"], "the shape of the result changes when the same message is scaled up", key, "small: [%s] huge: [%s]" % (r2, r3))
                    continue
                names = re.findall(r"([a-z]+)=", r1)
                for i, (a, b, c) in enumerate(zip(v1, v2, v3)):
                    if (c - a) * (l2 - l1) != (b - a) * (l3 - l1):
                        props = ["C03"] if i == 0 else (["C17"] if i == 1 else [kp, "C08"])
                        fail(props, "a reported number is not the affine extrapolation of the two small members (number %d of the observation: %d at %d bytes, %d at %d bytes, %d at %d bytes)" % (i, a, l1, b, l2, c, l3), key, "small: [%s] huge: [%s]" % (r2, r3))
                        break
            # entry points agree on the huge member
            by = {}
            for key, rs in rows.items():
                for (ln, tg, v, sk, rest) in rs:
                    # (`parse` / `parse_uninit` take no configuration: they agree with the others under the default only)
                    grp = "plain" if (key[3].startswith("parse") and " cfg=0 " not in " " + line_cfg.get(key, "cfg=0") + " ") else "cfg"
                    by.setdefault((key[0], key[1], key[2], ln, grp), {})[key[3]] = rest
            for k4, per in sorted(by.items()):
                if len(set(per.values())) > 1:
                    fail(["C16"], "entry points disagree on the same buffer, configuration and capacity", (k4[0], k4[1], k4[2], "all-entries"), json.dumps(per)[:600])
            # parse_headers on the header block alone answers like the request / response that contains it
            for key, rs in sorted(rows.items()):
                if key[1] == "hdrs":
                    for mk in ("req", "resp"):
                        other = rows.get((key[0], mk, key[2], "cfg"))
                        if not other or len(other) != len(rs):
                            continue
                        for (lh, th_, vh, _, rh), (lm, tm, vm, _, rm) in zip(sorted(rs), sorted(other)):
                            same = th_ == tm and (th_ != "C" or (vh[1] == vm[1] and vm[0] - vh[0] == lm - lh))
                            if not same:
                                fail(["C16"], "parse_headers on the header block and the %s parse of start line + block disagree (status / header count / consumed length)" % mk,
                                     (key[0], "hdrs-vs-" + mk, key[2], "cfg"), "hdrs %d bytes: [%s] %s %d bytes: [%s]" % (lh, rh, mk, lm, rm))
                                break
            for key, rs in list(rows.items())[:3]:
                samples["scale." + ".".join(key)] = "; ".join("%d bytes: %s" % (x[0], x[4][:80]) for x in sorted(rs))
            out.append({"family": "scale(G14)", "variant": variant, "n": n, "fails": fails[:400], "nfails": len(fails),
                        "stats": {"cases.scale": n, "nontrivial.scale": n}, "samples": samples, "wall": time.time() - t0, "cached": False})
        json.dump(out, open(res_path, "w"))
        return out


def special_c20(tier, seed, th, chk):
    return large_stage(tier, seed, th, chk)


def special_miri(prop, tier, seed, th, chk):
    """A sample of the cases under Miri (exact-size heap allocations; SIMD is disabled by build.rs under Miri,
    so this exercises the parser core, the SWAR scanners and the unsafe header-array glue): out-of-bounds
    accesses inside an allocation, reads of uninitialised header slots, invalid pointer arithmetic.  The
    observations are judged like any others."""
    import subprocess, os, time, json
    n_target = 250 if tier == "quick" else 2500
    cdir = os.path.join(chk.BUILD, "cache", th, "miri-%s-%s" % (tier, seed))
    res_path = os.path.join(cdir, "result.json")
    with chk.Lock("miri"):
        if os.path.exists(res_path):
            r = json.load(open(res_path)); r["cached"] = True
            return [r]
        t0 = time.time()
        os.makedirs(cdir, exist_ok=True)
        gen_bin, err = chk.build_harness("dev")
        if gen_bin is None:
            return [{"family": "miri", "variant": "miri", "build_failed": True, "log": err, "fails": [], "stats": {}, "samples": {}, "n": 0, "wall": 0}]
        allc = os.path.join(cdir, "all.txt")
        with open(allc, "w") as f:
            for fam in ("core", "entries", "hist", "caps", "chunk"):
                subprocess.run([gen_bin, "gen", fam, "quick", str(seed)], stdout=f, env=chk.ENV, check=True)
        lines = sorted(set(open(allc).read().splitlines()))
        os.remove(allc)
        step = max(1, len(lines) // n_target)
        sample = lines[::step][:n_target]
        # plus: truly uninitialised arrays through the uninit entry points, for every message-like sample
        mu = []
        for l in sample:
            t = l.split()
            if t and t[0] in ("req", "resp") and len(t) == 4:
                mu.append("mu %s %s %s %s" % (t[0], t[1], t[2], t[3]))
        cases = os.path.join(cdir, "cases.txt")
        open(cases, "w").write("\n".join(sample + mu[: n_target // 2]) + "\n")
        env = dict(chk.ENV, RUSTFLAGS="--cfg httparse_verif", MIRIFLAGS="-Zmiri-disable-isolation", CARGO_TARGET_DIR=os.path.join(chk.BUILD, "h-miri"))
        obs = os.path.join(cdir, "obs.txt")
        with open(cases) as i, open(obs, "w") as o:
            pr = subprocess.run(["cargo", "+nightly", "miri", "run", "-q", "--", "run"], cwd=chk.harness_dir(), stdin=i, stdout=o, stderr=subprocess.PIPE, text=True, env=env, timeout=7200)
        fails = []
        got = sum(1 for _ in open(obs))
        n = sum(1 for _ in open(cases))
        if pr.returncode != 0 or got < n:
            cl = open(cases).read().splitlines()
            culprit = cl[got] if got < len(cl) else "?"
            msg = [l for l in pr.stderr.splitlines() if "error" in l.lower() or "Undefined Behavior" in l]
            fails.append("FAIL %s hard | Miri reports undefined behaviour (or the run died) | %s | %s" % (prop, culprit, " ".join(msg[:3])[:500] or pr.stderr[-300:].replace("\n", " ")))
        with open(obs) as i:
            j = subprocess.run([chk.DRIVER, "judge"], stdin=i, capture_output=True, text=True, env=chk.ENV)
        jp = os.path.join(cdir, "judge.txt")
        open(jp, "w").write(j.stdout)
        f2, stats, samples = chk.parse_judge([jp])
        # `mu` lines are not judged by the driver (their observation has no array dump): BADLINE entries for them are expected
        f2 = [x for x in f2 if " mu " not in x and "| mu " not in x]
        stats.pop("badline", None)
        stats["cases.miri"] = n
        stats["nontrivial.miri"] = got
        r = {"family": "miri-sample", "variant": "miri(swar,dev)", "tier": tier, "seed": seed, "n": n, "fails": (fails + f2)[:200], "nfails": len(fails) + len(f2),
             "stats": stats, "samples": {"miri": sample[0] if sample else ""}, "wall": time.time() - t0, "cached": False}
        json.dump(r, open(res_path, "w"))
        return [r]



CROSS_TARGETS = {
    # target: (what it adds, extra RUSTFLAGS)
    "s390x-unknown-linux-gnu": ("big-endian 64-bit: SWAR with from_ne_bytes/to_ne_bytes the other way round", ""),
    "i686-unknown-linux-gnu": ("32-bit words: SWAR with BLOCK_SIZE = 4", ""),
    "aarch64-unknown-linux-gnu": ("the NEON kernels of src/simd/neon.rs, interpreted by Miri", "--cfg httparse_simd --cfg httparse_simd_neon_intrinsics"),
}
CROSS_PROPS = ("C01", "C05", "C06", "C08", "C12", "C13")


def cross_stage(tier, seed, th, chk):
    """The code paths that cannot run natively on this x86-64 machine — big-endian and 32-bit SWAR, and the
    aarch64 NEON kernels — are EXECUTED under Miri for a foreign target (`cargo +nightly miri run --target …`,
    sysroots built offline from rust-src on first use) on boundary scanner inputs and on whole messages, and
    judged against the same model as everything else.  (The theorems about these paths are about the model
    generated from the source; this stage is their correspondence run.)"""
    import subprocess, os, time, json
    from concurrent.futures import ThreadPoolExecutor
    cdir = os.path.join(chk.BUILD, "cache", th, "cross-%s-%s" % (tier, seed))
    res_path = os.path.join(cdir, "result.json")
    with chk.Lock("cross"):
        if os.path.exists(res_path):
            out = json.load(open(res_path))
            for r in out:
                r["cached"] = True
            return out
        os.makedirs(cdir, exist_ok=True)
        gen_bin, err = chk.build_harness("dev")
        if gen_bin is None:
            return [{"family": "cross", "variant": "miri-cross", "build_failed": True, "log": err, "fails": [], "stats": {}, "samples": {}, "n": 0, "wall": 0}]
        # boundary pairs (in-class byte, stop byte) at word / block positions, every class
        # (Miri interprets about 8 cases a second: the quick tier is sized for ~3 minutes, the three targets in parallel)
        ins = [0x21, 0x7e, 0x80, 0x61, 0x20, 0x09] if tier == "quick" else [0x21, 0x7e, 0x80, 0xff, 0x61, 0x30, 0x20, 0x09]
        stops = [0x00, 0x20, 0x7f, 0x0d, 0x3a, 0x80] if tier == "quick" else [0x00, 0x1f, 0x20, 0x7f, 0x0d, 0x0a, 0x3a, 0x09, 0x80, 0xff]
        poss = [0, 3, 8, 15] if tier == "quick" else list(range(0, 34))
        scan = []
        for cls in (0, 1, 2):
            for a in ins:
                for b in stops:
                    for p in poss:
                        buf = [0x61] * (p + 24)
                        buf[p], buf[p + 1] = a, b
                        scan.append("scan %%d %d 0 %s" % (cls, bytes(buf).hex()))
        core = subprocess.run([gen_bin, "gen", "core", "quick", str(seed)], capture_output=True, text=True, env=chk.ENV).stdout.splitlines()
        core = sorted(set(l for l in core if l.split()[0] in ("req", "resp", "hdrs") and len(l) < 500))
        step = max(1, len(core) // (60 if tier == "quick" else 3000))
        msgs = core[::step]
        # whole messages with long names / values / targets (several words and vector blocks): a control, DEL,
        # obs-text or CR at every position
        longs = [("req", "0 3", b"G /0123456789abcdefghijklmnopqrstuvwxyz0123456789abcdefghijklmnopqrstuvwxyz HTTP/1.1\r\nLong-Header-Name-For-Blocks: a-value-that-is-longer-than-thirty-two-bytes-for-avx2\r\n\r\n"),
                 ("resp", "0 3", b"HTTP/1.1 204 No Content\r\nLong-Header-Name-For-Blocks: a-value-that-is-longer-than-thirty-two-bytes-for-avx2 \t \r\nB: c\r\n\r\n"),
                 ("hdrs", "3", b"A:b\r\nLong-Header-Name-For-Blocks: a-value-that-is-longer-than-thirty-two-bytes-for-avx2\r\n\r\n")]
        vals = [0x00, 0x80] if tier == "quick" else [0x00, 0x7f, 0x80, 0x0d, 0xff, 0x09, 0x20, 0x3a, 0x0a, 0x1f]
        for kind, args, t in longs:
            for pos in range(len(t)):
                for v in vals:
                    x = bytearray(t)
                    x[pos] = v
                    msgs.append("%s %s %s" % (kind, args, bytes(x).hex()))

        def one(target):
            t0 = time.time()
            what, flags = CROSS_TARGETS[target]
            be = 3 if "aarch64" in target else 0
            cases = os.path.join(cdir, target + ".cases")
            open(cases, "w").write("\n".join([l % be for l in scan] + msgs + ["info"]) + "\n")
            env = dict(chk.ENV, RUSTFLAGS=("--cfg httparse_verif " + flags).strip(), MIRIFLAGS="-Zmiri-disable-isolation",
                       CARGO_TARGET_DIR=os.path.join(chk.BUILD, "h-miri-" + target))
            obs = os.path.join(cdir, target + ".obs")
            try:
                with open(cases) as i, open(obs, "w") as o:
                    pr = subprocess.run(["cargo", "+nightly", "miri", "run", "-q", "--target", target, "--", "run"], cwd=chk.harness_dir(), stdin=i, stdout=o, stderr=subprocess.PIPE, text=True, env=env, timeout=7200)
                rc, errtxt = pr.returncode, pr.stderr
            except subprocess.TimeoutExpired:
                rc, errtxt = -14, "timeout"
            fails = []
            got = sum(1 for _ in open(obs))
            n = sum(1 for _ in open(cases))
            variant = "miri:" + target.split("-")[0] + (":neon" if be == 3 else ":swar")
            if rc != 0 or got < n:
                cl = open(cases).read().splitlines()
                culprit = cl[got] if got < len(cl) else "?"
                msg = [l for l in errtxt.splitlines() if "error" in l.lower() or "Undefined Behavior" in l]
                for p in ("C01", "C12", "C13"):
                    fails.append("FAIL %s hard | undefined behaviour, a panic or a dead run on a foreign target (%s) under Miri | %s | %s" % (p, what, culprit, " ".join(msg[:3])[:500] or errtxt[-300:].replace("\n", " ")))
            with open(obs) as i:
                j = subprocess.run([chk.DRIVER, "judge"], stdin=i, capture_output=True, text=True, env=chk.ENV)
            jp = os.path.join(cdir, target + ".judge.txt")
            open(jp, "w").write(j.stdout)
            f2, stats, samples = chk.parse_judge([jp])
            info = [l for l in open(obs) if l.startswith("info ")]
            if be == 3 and not any("provider=neon" in l for l in info):
                fails.append("FAIL C12 model | the aarch64 build under Miri did not select the NEON provider | info | %s" % (info[:1],))
            stats["cases.cross"] = n
            stats["nontrivial.cross"] = got
            return {"family": "cross(%s)" % what.split(":")[0], "variant": variant, "tier": tier, "seed": seed, "n": n, "fails": chk.cap_per_prop(fails + f2), "nfails": len(fails) + len(f2),
                    "stats": stats, "samples": {"cross.info": (info[0].strip() if info else "")}, "wall": time.time() - t0, "cached": False}
        with ThreadPoolExecutor(max_workers=3) as ex:
            out = list(ex.map(one, sorted(CROSS_TARGETS)))
        json.dump(out, open(res_path, "w"))
        return out


def special(prop, tier, seed, th, chk):
    import subprocess, json, os, time
    sc = scale_stage(tier, seed, th, chk) if (prop in SCALE_PROPS or prop in ("C01", "C20")) else []
    if prop in CROSS_PROPS:
        sc = sc + cross_stage(tier, seed, th, chk)
    if prop == "C01":
        return special_miri(prop, tier, seed, th, chk) + large_stage(tier, seed, th, chk) + sc
    if prop == "C17":
        return special_miri(prop, tier, seed, th, chk) + large_stage(tier, seed, th, chk) + sc
    if prop == "C03":
        return large_stage(tier, seed, th, chk) + sc
    if prop == "C04":
        return special_c04(tier, seed, th, chk)
    if prop == "C20":
        return special_c20(tier, seed, th, chk) + sc
    if prop == "C11":
        return special_c11(tier, seed, th, chk) + sc
    if prop != "C13":
        return sc or None
    out = []
    variants = ["dev", "release", "dev-sse42", "dev-avx2", "dev-nosimd", "dev-runtimeonly", "dev-nostd", "dev-native"]
    if tier == "thorough":
        variants += ["release-sse42", "release-avx2", "release-nosimd", "release-nostd"]
    fails, stats, samples = [], {}, {}
    t0 = time.time()
    n = 0
    for v in variants:
        binp, err = chk.build_harness(v)
        if binp is None:
            fails.append("FAIL C13 hard | build variant does not compile | variant=%s | %s" % (v, err[-600:].replace("\n", " ")))
            continue
        info = subprocess.run([binp, "info"], capture_output=True, text=True, env=chk.ENV).stdout.strip()
        want = subprocess.run([chk.DRIVER, "buildflags"], input="buildenv %s x86_64\n" % C13_VARIANTS[v], capture_output=True, text=True, env=chk.ENV).stdout.strip()
        n += 1
        kv = dict(x.split("=", 1) for x in info.split() if "=" in x)
        wkv = dict(x.split("=", 1) for x in want.split("=> ")[-1].split() if "=" in x)
        ok = all(kv.get(k) == wkv.get(k) for k in ("simd", "sse42", "avx2", "neon_intrinsics")) and wkv.get("providers") == "[%s]" % kv.get("provider")
        samples["variant." + v] = info
        if not ok:
            fails.append("FAIL C13 hard | cfg flags / provider of a real build differ from Hx.Build + the generated lattice | variant=%s | real: %s | model: %s" % (v, info, want))
        # the shared corpus under this variant (judged against the one model): scanners, placements, chunk sizes
        for fam in (["place", "chunk", "scan", "core"] if v not in ("dev", "release") else []):
            r = chk.family_run(fam, "quick" if v.startswith("release-") else tier, seed, v, th)
            out.append(r)
        # 16-thread cold-start races in fresh processes
        if "nostd" not in v:
            for i in range(40 if tier == "quick" else 400):
                o = subprocess.run([binp, "race", "16"], capture_output=True, text=True, env=chk.ENV).stdout.strip()
                n += 1
                if "all_same=true" not in o:
                    fails.append("FAIL C13 hard | threads racing on their first parse call disagree | variant=%s run=%d | %s" % (v, i, o))
                    break
                m = o.split("runtime=")[-1]
                if m not in ("None",) and not any(m == "Some((%d, %d))" % (c, d) for d in (1, 2, 3) for c in (0, d)):
                    fails.append("FAIL C13 hard | feature cache holds a value other than 0 or the detected feature | variant=%s | %s" % (v, o))
                    break
            samples["race." + v] = o
    stats["cases.variants_and_races"] = n
    stats["nontrivial.variants"] = n
    out.append({"family": "variants+races", "variant": "all", "n": n, "fails": fails, "nfails": len(fails), "stats": stats, "samples": samples, "wall": time.time() - t0, "cached": False})
    if tier == "thorough":
        # all 32 switch combinations: std x disable x disable_compiletime x {none, sse4.2, avx2, sse4.2+avx2}
        fails2 = []
        k = 0
        for std in (1, 0):
            for dis in (0, 1):
                for dct in (0, 1):
                    for (s4, a2, tf) in ((0, 0, ""), (1, 0, "-C target-feature=+sse4.2"), (0, 1, "-C target-feature=+avx2"), (1, 1, "-C target-feature=+avx2,+sse4.2")):
                        name = "combo-%d%d%d%d%d" % (std, dis, dct, s4, a2)
                        flags = tf + (' --cfg httparse_disable_simd="1"' if dis else "") + (' --cfg httparse_disable_simd_compiletime="1"' if dct else "")
                        chk.VARIANTS[name] = ("", flags.strip(), [] if std else ["--no-default-features"])
                        binp, err = chk.build_harness(name)
                        k += 1
                        if binp is None:
                            fails2.append("FAIL C13 hard | switch combination does not compile | %s | %s" % (name, err[-400:].replace("\n", " ")))
                            continue
                        info = subprocess.run([binp, "info"], capture_output=True, text=True, env=chk.ENV).stdout.strip()
                        # rustc: +avx2 implies +avx, +sse4.2, … so the feature list build.rs sees contains sse4.2 too
                        bits = "%d0%d11%d1%d%d" % (std, dis, dct, 1 if (s4 or a2) else 0, a2)
                        want = subprocess.run([chk.DRIVER, "buildflags"], input="buildenv %s x86_64\n" % bits, capture_output=True, text=True, env=chk.ENV).stdout.strip()
                        kv = dict(x.split("=", 1) for x in info.split() if "=" in x)
                        wkv = dict(x.split("=", 1) for x in want.split("=> ")[-1].split() if "=" in x)
                        if not (all(kv.get(q) == wkv.get(q) for q in ("simd", "sse42", "avx2", "neon_intrinsics")) and wkv.get("providers") == "[%s]" % kv.get("provider")):
                            fails2.append("FAIL C13 hard | cfg flags / provider differ from Hx.Build | %s | real: %s | model: %s" % (name, info, want))
                        import shutil
                        shutil.rmtree(os.path.join(chk.BUILD, "h-" + name), ignore_errors=True)
        out.append({"family": "switch-combinations", "variant": "32", "n": k, "fails": fails2, "nfails": len(fails2), "stats": {"cases.combos": k, "nontrivial.combos": k}, "samples": {}, "wall": 0, "cached": False})
    return out + sc
