"""Per-property tables for /verif/check: which case families (and build variants) tie each
property's theorems to the real code, and whether the theorem determines its projection."""

def runs(quick, thorough=None):
    return {"quick": quick, "thorough": thorough or quick}

D, R = "dev", "release"

PROPS = {
    "C01": dict(runs=runs([("core", D), ("chunk", D), ("place", D), ("place", R), ("scan", D), ("chunk", R)],
                          [("core", D), ("core", R), ("block", D), ("chunk", D), ("chunk", R), ("place", D), ("place", R), ("scan", D), ("scan", R), ("entries", D)]),
                assumptions=["memory accesses are observed through guard pages and debug assertions, not proved: a stray access that stays inside mapped memory and changes no result is invisible",
                             "NEON loads are checked on the generated model only (no aarch64 here)"]),
    "C02": dict(runs=runs([("split", D), ("core", D)], [("split", D), ("core", D), ("block", D)])),
    "C03": dict(runs=runs([("core", D), ("block", D), ("chunk", D)])),
    "C04": dict(runs=runs([("core", D), ("block", D), ("entries", D)]),
                assumptions=["the static half (lifetimes; no safe program can keep a field past its buffer) is decided by rustc's borrow checker and is not claimed as proved"]),
    "C05": dict(runs=runs([("core", D), ("block", D), ("utf8", D)])),
    "C06": dict(runs=runs([("core", D), ("utf8", D)]), determining=True),
    "C07": dict(runs=runs([("core", D)]), determining=True),
    "C08": dict(runs=runs([("core", D), ("block", D)]), determining=True),
    "C09": dict(runs=runs([("chunk", D), ("chunk", R)]), determining=True),
    "C10": dict(runs=runs([("core", D), ("block", D)]), determining=True),
    "C11": dict(runs=runs([("core", D), ("chunk", D)], [("core", D), ("block", D), ("chunk", D)])),
    "C12": dict(runs=runs([("scan", D), ("swar", D), ("classes", D)], [("scan", D), ("scan", R), ("swar", D), ("classes", D)]), determining=True,
                trusted=["lane semantics of the x86 intrinsics (validated against the real instructions by the scan family)",
                         "lane semantics of the NEON intrinsics and tools/neon2lean.py (not executable here)"]),
    "C13": dict(runs=runs([("place", D), ("place", R), ("scan", D), ("chunk", R)]),
                assumptions=["weak-memory behaviour of the relaxed atomic cache is modelled as atomic steps on one location",
                             "'every switch combination compiles' is observed by building, not proved"]),
    "C14": dict(runs=runs([("block", D), ("core", D)]), determining=True),
    "C15": dict(runs=runs([("cfgpair", D)])),
    "C16": dict(runs=runs([("entries", D), ("hrel", D)])),
    "C17": dict(runs=runs([("core", D), ("entries", D)])),
    "C18": dict(runs=runs([("hist", D)])),
    "C20": dict(runs=runs([("core", D), ("block", D), ("chunk", D)]),
                assumptions=["wall-clock time is not modelled; the claim is about counted cursor travel and block loads"]),
}
