#!/bin/bash
# runs every claimed check (quick by default) on the current tree and prints one line per property
cd /verif
tier=${1:-quick}
for p in $(python3 -c "import json; print(' '.join(c['property_id'] for c in json.load(open('MANIFEST.json'))['checks']))"); do
  s=$(date +%s)
  out=$(./check $p --tier $tier 2>/dev/null | grep -E "VIOLATION|KNOWN")
  echo "$p ${out:-ok} $(( $(date +%s) - s ))s"
done
