#!/usr/bin/env python3
"""
neon2lean.py <repo> <leandir> — regenerates Hx/Gen/Neon.lean from <repo>/src/simd/neon.rs.

src/simd/neon.rs cannot be compiled or executed in this sandbox (aarch64 only), so its Lean model
is *generated from the current source on every run*; the C12/C01/C13 theorems about it are then
re-checked by `lake build`.  What is translated:

  * the three `match_*_vectored` loops: threshold of the `while len >= N`, the kernel called, the
    `advance != N` stop constant and the fallback function            -> `blockLoop` parameters
  * the three straight-line kernels `match_*_char_16_neon`: every `let x = intrinsic(args);`
    (intrinsics of Hx/Scan/NeonSem.lean), constants, the tail `offsetz(result) as usize`
  * `bit_set` (the `matches!` patterns) and `BITMASK_LOOKUP_DATA`
  * `build_bitmap`, `offsetz`, `offsetnz` are pinned verbatim (token-normalised text must equal the
    text their hand-written semantics in NeonSem.lean were written from); a change there is a
    translator failure, reported by ./check as "no longer checks".

Anything outside this subset is a hard failure (exit 1), never a silent skip.
"""
import sys, re, hashlib, os

INTRINSICS = {
    "vld1q_u8": ("opt", 1), "vdupq_n_u8": ("pure", 1), "vandq_u8": ("pure", 2), "vorrq_u8": ("pure", 2),
    "veorq_u8": ("pure", 2), "vbicq_u8": ("pure", 2), "vmvnq_u8": ("pure", 1), "vceqq_u8": ("pure", 2),
    "vcleq_u8": ("pure", 2), "vcgeq_u8": ("pure", 2), "vcltq_u8": ("pure", 2), "vcgtq_u8": ("pure", 2),
    "vshrq_n_u8": ("pure", 2), "vqtbl1q_u8": ("pure", 2),
}

PINNED = {
    "build_bitmap": "const fn build_bitmap ( ) -> ( [ u8 ; 16 ] , [ u8 ; 16 ] ) { let mut bitmap_0_7 = [ 0u8 ; 16 ] ; let mut bitmap_8_15 = [ 0u8 ; 16 ] ; let mut i = 0 ; while i < 256 { if bit_set ( i as u8 ) { let ( lo , hi ) = ( i & 0x0F , i >> 4 ) ; if i < 128 { bitmap_0_7 [ lo ] |= 1 << hi ; } else { bitmap_8_15 [ lo ] |= 1 << hi ; } } i += 1 ; } ( bitmap_0_7 , bitmap_8_15 ) }",
    "offsetz": "unsafe fn offsetz ( x : uint8x16_t ) -> u32 { offsetnz ( vmvnq_u8 ( x ) ) }",
    "offsetnz": "unsafe fn offsetnz ( x : uint8x16_t ) -> u32 { let x = vreinterpretq_u64_u8 ( x ) ; let low : u64 = vgetq_lane_u64 :: < 0 > ( x ) ; let high : u64 = vgetq_lane_u64 :: < 1 > ( x ) ; # [ inline ] fn clz ( x : u64 ) -> u32 { for ( i , b ) in x . to_ne_bytes ( ) . iter ( ) . copied ( ) . enumerate ( ) { if b != 0 { return i as u32 ; } } 8 } if low != 0 { clz ( low ) } else if high != 0 { return 8 + clz ( high ) ; } else { return 16 ; } }",
}


class Fail(Exception):
    pass


TOK = re.compile(r"""
    (?P<ws>\s+) | (?P<lc>//[^\n]*) | (?P<bc>/\*.*?\*/)
  | (?P<byte>b'(?:\\.|[^'\\])')
  | (?P<str>b?"(?:\\.|[^"\\])*")
  | (?P<num>0x[0-9a-fA-F_]+(?:u8|u16|u32|u64|usize)?|[0-9][0-9_]*(?:u8|u16|u32|u64|usize)?)
  | (?P<id>[A-Za-z_][A-Za-z0-9_]*!?)
  | (?P<op>::|->|=>|\.\.=|<<=|>>=|\|=|&=|\+=|-=|==|!=|<=|>=|<<|>>|&&|\|\||[-+*/%&|^!<>=.,;:(){}\[\]#'?])
""", re.X | re.S)


def tokenize(src):
    out = []
    i = 0
    while i < len(src):
        m = TOK.match(src, i)
        if not m:
            raise Fail("cannot tokenize at: %r" % src[i:i + 40])
        i = m.end()
        if m.lastgroup in ("ws", "lc", "bc"):
            continue
        out.append(m.group(0))
    return out


def split_items(toks):
    """top-level `fn` items: name -> token list (from the first attribute/`pub`/`const`/`unsafe`/`fn` to the closing brace)"""
    items = {}
    consts = {}
    i = 0
    n = len(toks)
    while i < n:
        # find 'fn' at depth 0
        if toks[i] == "fn":
            # walk back over qualifiers
            j = i
            while j > 0 and toks[j - 1] in ("pub", "const", "unsafe"):
                j -= 1
            name = toks[i + 1]
            k = i
            while toks[k] != "{":
                k += 1
            depth = 0
            e = k
            while True:
                if toks[e] == "{":
                    depth += 1
                elif toks[e] == "}":
                    depth -= 1
                    if depth == 0:
                        break
                e += 1
            items[name] = toks[j:e + 1]
            i = e + 1
        elif toks[i] == "const" and i + 1 < n and toks[i + 1] != "fn":
            k = i
            depth = 0
            while not (toks[k] == ";" and depth == 0):
                if toks[k] in "([{":
                    depth += 1
                elif toks[k] in ")]}":
                    depth -= 1
                k += 1
            consts[toks[i + 1]] = toks[i:k + 1]
            i = k + 1
        elif toks[i] == "#" and i + 2 < n and toks[i + 1] == "[" and toks[i + 2] in ("test", "cfg"):
            # stop at the test section: `#[test]` / `#[cfg(test)]`
            break
        else:
            i += 1
    return items, consts


def num(tok):
    t = re.sub(r"(u8|u16|u32|u64|usize)$", "", tok).replace("_", "")
    return int(t, 16) if t.startswith("0x") else int(t)


def byte_lit(tok):
    body = tok[2:-1]
    esc = {"\\n": 10, "\\r": 13, "\\t": 9, "\\\\": 92, "\\'": 39, "\\0": 0, '\\"': 34}
    if body in esc:
        return esc[body]
    if body.startswith("\\x"):
        return int(body[2:], 16)
    if len(body) == 1:
        return ord(body)
    raise Fail("byte literal " + tok)


class Parser:
    def __init__(self, toks):
        self.t = toks
        self.i = 0

    def peek(self, k=0):
        return self.t[self.i + k] if self.i + k < len(self.t) else None

    def eat(self, x=None):
        tok = self.peek()
        if tok is None or (x is not None and tok != x):
            raise Fail("expected %r, found %r at %s" % (x, tok, " ".join(self.t[max(0, self.i - 6):self.i + 6])))
        self.i += 1
        return tok

    # expressions of the kernel subset -> Lean term (string), and whether it is Option-valued
    def expr(self, env):
        tok = self.peek()
        if tok is None:
            raise Fail("unexpected end")
        if re.match(r"^(0x|[0-9])", tok):
            self.eat()
            e = str(num(tok))
        elif tok.startswith("b'"):
            self.eat()
            e = str(byte_lit(tok))
        elif tok == "[":
            self.eat()
            elems = []
            while self.peek() != "]":
                elems.append(self.expr(env)[0])
                if self.peek() == ",":
                    self.eat()
            self.eat("]")
            return "[" + ", ".join(elems) + "]", False
        elif re.match(r"^[A-Za-z_]", tok):
            self.eat()
            name = tok
            # turbofish const generic: f::<N>(x)
            generic = None
            if self.peek() == "::" and self.peek(1) == "<":
                self.eat(); self.eat()
                generic = self.expr(env)[0]
                self.eat(">")
            if self.peek() == "(":
                self.eat("(")
                args = []
                while self.peek() != ")":
                    a, opt = self.expr(env)
                    if opt:
                        raise Fail("nested effectful call")
                    args.append(a)
                    if self.peek() == ",":
                        self.eat()
                self.eat(")")
                if name == "offsetz":
                    e = "(offsetz %s)" % args[0]
                elif name in INTRINSICS:
                    kind, ar = INTRINSICS[name]
                    if generic is not None:
                        args.append(generic)
                    if len(args) != ar:
                        raise Fail("arity of " + name)
                    e = "(%s %s)" % (name, " ".join(args))
                    if kind == "opt":
                        return e, True
                else:
                    raise Fail("unknown function " + name)
            else:
                if name == "ptr":
                    e = "mem"
                elif name in env:
                    e = env[name]
                else:
                    raise Fail("unknown identifier " + name)
        elif tok == "(":
            self.eat("(")
            e = self.expr(env)[0]
            self.eat(")")
        else:
            raise Fail("unexpected token " + tok)
        # postfix: .as_ptr(), `as T`
        while True:
            if self.peek() == "." and self.peek(1) == "as_ptr":
                self.eat(); self.eat(); self.eat("("); self.eat(")")
            elif self.peek() == "as":
                self.eat(); self.eat()
            else:
                break
        return e, False


def translate_kernel(name, toks, consts_env):
    # header:  [#[inline]] unsafe fn NAME(ptr: *const u8) -> usize {
    k = toks.index("{")
    hdr = " ".join(toks[:k])
    if not re.search(r"fn %s \( ptr : \* const u8 \) -> usize" % name, hdr):
        raise Fail("unexpected signature: " + hdr)
    p = Parser(toks[k + 1:-1])
    env = dict(consts_env)
    lines = []
    tail = None
    while p.peek() is not None:
        tok = p.peek()
        if tok == "let":
            p.eat()
            if p.peek() == "(":
                p.eat("(")
                names = []
                while p.peek() != ")":
                    names.append(p.eat())
                    if p.peek() == ",":
                        p.eat()
                p.eat(")")
                p.eat("=")
                e, opt = p.expr(env)
                p.eat(";")
                for idx, nm in enumerate(names):
                    lines.append("  let %s := (%s).%d" % (lean_id(nm), e, idx + 1))
                    env[nm] = lean_id(nm)
                continue
            nm = p.eat()
            if p.peek() == ":":
                while p.peek() != "=":
                    p.eat()
            p.eat("=")
            e, opt = p.expr(env)
            p.eat(";")
            lines.append("  let %s %s %s" % (lean_id(nm), "←" if opt else ":=", e))
            env[nm] = lean_id(nm)
        elif tok == "const":
            p.eat()
            nm = p.eat()
            while p.peek() != "=":
                p.eat()
            p.eat("=")
            e, _ = p.expr(env)
            p.eat(";")
            lines.append("  let %s : List Byte := %s" % (lean_id(nm), e))
            env[nm] = lean_id(nm)
        else:
            e, opt = p.expr(env)
            if p.peek() is not None:
                raise Fail("trailing tokens after tail expression in " + name)
            tail = e
    if tail is None:
        raise Fail("no tail expression in " + name)
    body = "\n".join(lines) + "\n  pure %s" % tail
    return "def %s (mem : List Byte) : Option Nat := do\n%s\n" % (name, body)


def lean_id(n):
    return n if not n.startswith("_") else "u" + n


def translate_bit_set(toks):
    s = " ".join(toks)
    m = re.search(r"fn bit_set \( x : u8 \) -> bool \{ matches! \( x , (.*) \) \}$", s)
    if not m:
        raise Fail("bit_set has an unexpected shape")
    alts, cur = [], []
    for t in m.group(1).split(" "):
        if t == "|":
            alts.append(cur); cur = []
        elif t:
            cur.append(t)
    alts.append(cur)
    terms = []
    for parts in alts:
        a = " ".join(parts)
        def val(t):
            return byte_lit(t) if t.startswith("b'") else num(t)
        if len(parts) == 3 and parts[1] == "..=":
            terms.append("(%d ≤ x && x ≤ %d)" % (val(parts[0]), val(parts[2])))
        elif len(parts) == 1:
            terms.append("x == %d" % val(parts[0]))
        else:
            raise Fail("bit_set pattern " + a)
    return "def bit_set (x : Byte) : Bool :=\n  " + " ||\n  ".join(terms) + "\n"


def translate_loop(name, toks):
    s = " ".join(toks)
    m = re.search(r"fn %s \( bytes : & mut Bytes \) \{ while bytes \. as_ref \( \) \. len \( \) >= (\w+) \{ unsafe \{ let advance = (\w+) \( bytes \. as_ref \( \) \. as_ptr \( \) \) ; bytes \. advance \( advance \) ; if advance != (\w+) \{ return ; \} \} \} super :: swar :: (\w+) \( bytes \) ; \}$" % name, s)
    if not m:
        raise Fail("loop %s has an unexpected shape: %s" % (name, s[:200]))
    return {"threshold": num(m.group(1)), "kernel": m.group(2), "stop": num(m.group(3)), "fallback": m.group(4)}


def main():
    repo, leandir = sys.argv[1], sys.argv[2]
    path = os.path.join(repo, "src", "simd", "neon.rs")
    src = open(path).read()
    sha = hashlib.sha256(src.encode()).hexdigest()[:16]
    out = os.path.join(leandir, "Hx", "Gen", "Neon.lean")
    try:
        toks = tokenize(src)
        items, consts = split_items(toks)
        for nm, want in PINNED.items():
            if nm not in items:
                raise Fail("missing function " + nm)
            got = " ".join(t for t in items[nm] if True)
            got = re.sub(r"^(# \[ inline \] )", "", got)
            if got != want:
                raise Fail("pinned function `%s` changed; its hand-written semantics in NeonSem.lean no longer apply.\n got: %s\nwant: %s" % (nm, got, want))
        if " ".join(consts.get("BITMAPS", [])) != "const BITMAPS : ( [ u8 ; 16 ] , [ u8 ; 16 ] ) = build_bitmap ( ) ;":
            raise Fail("BITMAPS is no longer `build_bitmap()`")
        parts = []
        parts.append(translate_bit_set(items["bit_set"]))
        parts.append("def BITMAPS : List Byte × List Byte := buildBitmap bit_set\n")
        kernels = ["match_header_name_char_16_neon", "match_url_char_16_neon", "match_header_value_char_16_neon"]
        for k in kernels:
            if k not in items:
                raise Fail("missing kernel " + k)
            parts.append(translate_kernel(k, items[k], {"BITMAPS": "BITMAPS"}))
        loops = {}
        for l in ("match_header_name_vectored", "match_header_value_vectored", "match_uri_vectored"):
            if l not in items:
                raise Fail("missing loop " + l)
            loops[l] = translate_loop(l, items[l])
        known = set(PINNED) | set(kernels) | set(loops) | {"bit_set", "clz", "byte_is_allowed"}
        extra = [k for k in items if k not in known and not k.startswith("neon_code_")]
        if extra:
            raise Fail("untranslated functions: %s" % extra)
        fb = {"match_header_name_vectored": "Swar.nameScanner w", "match_header_value_vectored": "Swar.valueScanner w le", "match_uri_vectored": "Swar.uriScanner w le"}
        for l, prm in loops.items():
            if prm["fallback"] != l:
                raise Fail("loop %s falls back to %s" % (l, prm["fallback"]))
            parts.append("def %s (w : Nat) (le : Bool) : Scanner := fun l =>\n  blockLoop %d %d %s (%s) (l.length + 1) l\n" % (l, prm["threshold"], prm["stop"], prm["kernel"], fb[l]))
            parts.append("def %s_threshold : Nat := %d\n" % (l, prm["threshold"]))
        parts.append("def backend (w : Nat) (le : Bool) : Backend :=\n  ⟨match_uri_vectored w le, match_header_value_vectored w le, match_header_name_vectored w le⟩\n")
        text = ("/- GENERATED by /verif/tools/neon2lean.py from src/simd/neon.rs — do not edit. -/\n"
                "import Hx.Scan.NeonSem\nimport Hx.Scan.Swar\nnamespace Hx.Gen.Neon\nopen Hx Hx.Neon\n\n"
                "def sourceOk : Bool := true\n\n" + "\n".join(parts) + "\nend Hx.Gen.Neon\n")
        rc = 0
        print("neon2lean: translated %d kernels, %d loops, bit_set, pinned %s (source sha %s)" % (len(kernels), len(loops), sorted(PINNED), sha))
    except Fail as e:
        # keep the project compiling, but make every theorem about the generated code fail
        text = ("/- GENERATED by /verif/tools/neon2lean.py — TRANSLATION FAILED: see the check log. -/\n"
                "import Hx.Scan.NeonSem\nimport Hx.Scan.Swar\nnamespace Hx.Gen.Neon\nopen Hx Hx.Neon\n\n"
                "def sourceOk : Bool := false\n\n"
                "def bit_set (_ : Byte) : Bool := false\n"
                "def match_header_name_char_16_neon (_ : List Byte) : Option Nat := none\n"
                "def match_url_char_16_neon (_ : List Byte) : Option Nat := none\n"
                "def match_header_value_char_16_neon (_ : List Byte) : Option Nat := none\n"
                "def match_header_name_vectored (_ : Nat) (_ : Bool) : Scanner := fun _ => none\n"
                "def match_header_value_vectored (_ : Nat) (_ : Bool) : Scanner := fun _ => none\n"
                "def match_uri_vectored (_ : Nat) (_ : Bool) : Scanner := fun _ => none\n"
                "def match_header_name_vectored_threshold : Nat := 0\n"
                "def match_header_value_vectored_threshold : Nat := 0\n"
                "def match_uri_vectored_threshold : Nat := 0\n"
                "def backend (w : Nat) (le : Bool) : Backend :=\n  ⟨match_uri_vectored w le, match_header_value_vectored w le, match_header_name_vectored w le⟩\n"
                "\nend Hx.Gen.Neon\n")
        rc = 1
        print("neon2lean: FAILED: %s" % e)
    os.makedirs(os.path.dirname(out), exist_ok=True)
    old = open(out).read() if os.path.exists(out) else None
    if old != text:
        open(out, "w").write(text)
    sys.exit(rc)


if __name__ == "__main__":
    main()
