#!/usr/bin/env python3
"""
gen_static_c04.py — writes the systematic part of the C04 static corpus:

    static_c04/reject/gen_<entry>__<field>__<violation>.rs   must be rejected by the borrow checker
    static_c04/accept/gen_<entry>__<field>__<violation>.rs   the same program with the last use moved in
                                                             front of the violation: must compile (shows
                                                             that the reject twin fails for that one reason)

for every public entry point that hands out borrowed data (4 request, 3 response, parse_headers) x every
borrowed field (method, path, reason, header name, header value, the headers slice) x every violation
(field outlives the buffer; buffer mutated while the field is live; buffer dropped while the field is
live; headers slice outlives the array it was given; array overwritten while the headers slice is live).
The output is deterministic and committed; `./check C04` compiles what is in the directories.
"""
import os, glob

ROOT = os.path.join(os.path.dirname(os.path.abspath(__file__)), "..", "static_c04")

REQ = 'b"GET /p HTTP/1.1\\r\\nA: b\\r\\n\\r\\n"'
RESP = 'b"HTTP/1.1 200 OK\\r\\nA: b\\r\\n\\r\\n"'
HDRS = 'b"A: b\\r\\n\\r\\n"'

# entry: (kind, uses uninit array, call expression with {buf})
ENTRIES = {
    "req_parse": ("req", False, "r.parse({buf})"),
    "req_parse_uninit": ("req", True, "r.parse_with_uninit_headers({buf}, &mut u)"),
    "req_cfg": ("req", False, "cfg.parse_request(&mut r, {buf})"),
    "req_cfg_uninit": ("req", True, "cfg.parse_request_with_uninit_headers(&mut r, {buf}, &mut u)"),
    "resp_parse": ("resp", False, "r.parse({buf})"),
    "resp_cfg": ("resp", False, "cfg.parse_response(&mut r, {buf})"),
    "resp_cfg_uninit": ("resp", True, "cfg.parse_response_with_uninit_headers(&mut r, {buf}, &mut u)"),
}
FIELDS = {
    "req": {"method": ("&str", "r.method.unwrap()"), "path": ("&str", "r.path.unwrap()"),
            "hname": ("&str", "r.headers[0].name"), "hvalue": ("&[u8]", "r.headers[0].value")},
    "resp": {"reason": ("&str", "r.reason.unwrap()"),
             "hname": ("&str", "r.headers[0].name"), "hvalue": ("&[u8]", "r.headers[0].value")},
}
HDR_T = "httparse::Header<'_>"


def decl(kind, uninit, arr_outer=True):
    ty = "Request" if kind == "req" else "Response"
    l = []
    if uninit:
        l.append("let mut u = [std::mem::MaybeUninit::<%s>::uninit(); 4];" % HDR_T)
        l.append("let mut r = httparse::%s::new(&mut []);" % ty)
    else:
        l.append("let mut h = [httparse::EMPTY_HEADER; 4];")
        l.append("let mut r = httparse::%s::new(&mut h);" % ty)
    l.append("let cfg = httparse::ParserConfig::default();")
    l.append("let _ = &cfg;")
    return l


def prog(lines):
    return "#![allow(unused)]\nfn main() {\n" + "\n".join("    " + x for x in lines) + "\n}\n"


def emit(name, reject, accept):
    for kind, body in (("reject", reject), ("accept", accept)):
        with open(os.path.join(ROOT, kind, "gen_%s.rs" % name), "w") as f:
            f.write(prog(body))


def main():
    for kind in ("reject", "accept"):
        for f in glob.glob(os.path.join(ROOT, kind, "gen_*.rs")):
            os.remove(f)
    n = 0
    for ename, (kind, uninit, call) in ENTRIES.items():
        msg = REQ if kind == "req" else RESP
        for fname, (fty, fexpr) in FIELDS[kind].items():
            # V1: field outlives the buffer
            inner = ["let buf = %s.to_vec();" % msg] + decl(kind, uninit) + ["let _ = %s;" % call.format(buf="&buf")]
            emit("%s__%s__outlives_buffer" % (ename, fname),
                 ["let kept: %s;" % fty, "{"] + ["    " + x for x in inner + ["kept = %s;" % fexpr]] + ["}", 'println!("{:?}", kept);'],
                 ["let kept: %s;" % fty, "{"] + ["    " + x for x in inner + ["kept = %s;" % fexpr, 'println!("{:?}", kept);']] + ["}"])
            # V2 / V3: buffer mutated / dropped while the field is live
            for vname, viol in (("buffer_mutated", "buf[0] = b'X';"), ("buffer_dropped", "drop(buf);")):
                head = ["let mut buf = %s.to_vec();" % msg] + decl(kind, uninit) + ["let _ = %s;" % call.format(buf="&buf"), "let kept: %s = %s;" % (fty, fexpr)]
                emit("%s__%s__%s" % (ename, fname, vname),
                     head + [viol, 'println!("{:?}", kept);'],
                     head + ['println!("{:?}", kept);', viol])
                n += 1
            n += 1
        # the headers slice: outlives the buffer, outlives the array, array overwritten while live
        arr = "u" if uninit else "h"
        over = "u[0] = std::mem::MaybeUninit::uninit();" if uninit else "h[0] = httparse::EMPTY_HEADER;"
        inner = ["let buf = %s.to_vec();" % msg] + decl(kind, uninit) + ["let _ = %s;" % call.format(buf="&buf")]
        emit("%s__headers__outlives_buffer" % ename,
             ["let kept: &mut [%s];" % HDR_T, "{"] + ["    " + x for x in inner + ["kept = r.headers;"]] + ["}", 'println!("{:?}", kept.len());'],
             ["let kept: &mut [%s];" % HDR_T, "{"] + ["    " + x for x in inner + ["kept = r.headers;", 'println!("{:?}", kept.len());']] + ["}"])
        inner = decl(kind, uninit) + ["let _ = %s;" % call.format(buf="&buf")]
        emit("%s__headers__outlives_array" % ename,
             ["let buf = %s.to_vec();" % msg, "let kept: &mut [%s];" % HDR_T, "{"] + ["    " + x for x in inner + ["kept = r.headers;"]] + ["}", 'println!("{:?}", kept.len());'],
             ["let buf = %s.to_vec();" % msg, "let kept: &mut [%s];" % HDR_T, "{"] + ["    " + x for x in inner + ["kept = r.headers;", 'println!("{:?}", kept.len());']] + ["}"])
        head = ["let buf = %s.to_vec();" % msg] + decl(kind, uninit) + ["let _ = %s;" % call.format(buf="&buf"), "let kept = r.headers;"]
        emit("%s__headers__array_overwritten" % ename,
             head + [over, 'println!("{:?}", kept.len());'],
             head + ['println!("{:?}", kept.len());', over])
        n += 3
    # the caller's own array read again after the buffer is gone (the parser wrote `Header<'buf>` into it)
    for ename, (kind, uninit, call) in ENTRIES.items():
        if uninit:
            continue
        msg = REQ if kind == "req" else RESP
        ty = "Request" if kind == "req" else "Response"
        inner = ["let buf = %s.to_vec();" % msg, "let mut r = httparse::%s::new(&mut h);" % ty, "let cfg = httparse::ParserConfig::default();", "let _ = &cfg;", "let _ = %s;" % call.format(buf="&buf")]
        for fld in ("name", "value"):
            emit("%s__array_%s__read_after_buffer" % (ename, fld),
                 ["let mut h = [httparse::EMPTY_HEADER; 4];", "{"] + ["    " + x for x in inner] + ["}", 'println!("{:?}", h[0].%s);' % fld],
                 ["let mut h = [httparse::EMPTY_HEADER; 4];", "{"] + ["    " + x for x in inner + ['println!("{:?}", h[0].%s);' % fld]] + ["}"])
            n += 1
    for fld in ("name", "value"):
        inner = ["let buf = %s.to_vec();" % HDRS, "let _ = httparse::parse_headers(&buf, &mut h);"]
        emit("parse_headers__array_%s__read_after_buffer" % fld,
             ["let mut h = [httparse::EMPTY_HEADER; 4];", "{"] + ["    " + x for x in inner] + ["}", 'println!("{:?}", h[0].%s);' % fld],
             ["let mut h = [httparse::EMPTY_HEADER; 4];", "{"] + ["    " + x for x in inner + ['println!("{:?}", h[0].%s);' % fld]] + ["}"])
        n += 1
    # parse_headers
    get = "let hs = match out { Ok(httparse::Status::Complete((_, hs))) => hs, _ => panic!() };"
    for fname, (fty, fexpr) in {"hname": ("&str", "hs[0].name"), "hvalue": ("&[u8]", "hs[0].value")}.items():
        inner = ["let buf = %s.to_vec();" % HDRS, "let mut h = [httparse::EMPTY_HEADER; 4];", "let out = httparse::parse_headers(&buf, &mut h);", get]
        emit("parse_headers__%s__outlives_buffer" % fname,
             ["let kept: %s;" % fty, "{"] + ["    " + x for x in inner + ["kept = %s;" % fexpr]] + ["}", 'println!("{:?}", kept);'],
             ["let kept: %s;" % fty, "{"] + ["    " + x for x in inner + ["kept = %s;" % fexpr, 'println!("{:?}", kept);']] + ["}"])
        for vname, viol in (("buffer_mutated", "buf[0] = b'X';"), ("buffer_dropped", "drop(buf);")):
            head = ["let mut buf = %s.to_vec();" % HDRS, "let mut h = [httparse::EMPTY_HEADER; 4];", "let out = httparse::parse_headers(&buf, &mut h);", get, "let kept: %s = %s;" % (fty, fexpr)]
            emit("parse_headers__%s__%s" % (fname, vname), head + [viol, 'println!("{:?}", kept);'], head + ['println!("{:?}", kept);', viol])
            n += 1
        n += 1
    head = ["let buf = %s.to_vec();" % HDRS, "let mut h = [httparse::EMPTY_HEADER; 4];", "let out = httparse::parse_headers(&buf, &mut h);", get]
    emit("parse_headers__headers__array_overwritten", head + ["h[0] = httparse::EMPTY_HEADER;", 'println!("{:?}", hs.len());'], head + ['println!("{:?}", hs.len());', "h[0] = httparse::EMPTY_HEADER;"])
    inner = ["let mut h = [httparse::EMPTY_HEADER; 4];", "let out = httparse::parse_headers(&buf, &mut h);", get]
    emit("parse_headers__headers__outlives_array",
         ["let buf = %s.to_vec();" % HDRS, "let kept: &[%s];" % HDR_T, "{"] + ["    " + x for x in inner + ["kept = hs;"]] + ["}", 'println!("{:?}", kept.len());'],
         ["let buf = %s.to_vec();" % HDRS, "let kept: &[%s];" % HDR_T, "{"] + ["    " + x for x in inner + ["kept = hs;", 'println!("{:?}", kept.len());']] + ["}"])
    n += 2
    print("wrote %d reject/accept pairs" % n)


if __name__ == "__main__":
    main()
