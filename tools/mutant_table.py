#!/usr/bin/env python3
"""Prints the markdown table of seeded mutants (from /verif/seeded/*/meta.json) for DESIGN.md §11.8."""
import json, glob, os, re
print("| mutant | breaks | what it changes / needs | confirmed | caught with a concrete replay by | `no-failing-input-found` on | passed |")
print("|---|---|---|---|---|---|---|")
for d in sorted(glob.glob('/verif/seeded/*/')):
    name = os.path.basename(d.rstrip('/'))
    m = json.load(open(d + 'meta.json'))
    v = {k: x for k, x in m['verdicts'].items() if re.fullmatch(r"C\d+", k)}
    txt = " ".join(m['needs_to_manifest'].strip().split())
    txt = re.sub(r"^(Mutant [A-Za-z] ?[-—:(]*|\d+\.\s*|Change:|What was changed:|Changed:)\s*", "", txt)[:170].replace("|", "\\|")
    print("| %s | %s | %s | %s | %s | %s | %s |" % (name, m['breaks_property'], txt, "yes" if m.get('confirmed_in_scratch_worktree') else "no",
          ", ".join(k for k, x in sorted(v.items()) if x == "VIOLATION") or "—",
          ", ".join(k for k, x in sorted(v.items()) if x == "no-failing-input-found") or "—",
          ", ".join(k for k, x in sorted(v.items()) if x == "pass") or "—"))
