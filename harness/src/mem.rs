//! Guard-page placement of input buffers and header arrays (direct mmap/mprotect FFI; no crate).
use httparse::Header;
use std::mem::MaybeUninit;
#[cfg(not(miri))]
use std::os::raw::{c_int, c_void};

#[cfg(miri)]
pub use self::miri_impl::{ByteArena, HeaderArena};

/// Under Miri there is no mmap; buffers and header arrays are exact-size heap allocations, which Miri
/// checks byte-exactly (out-of-bounds, uninitialised reads, aliasing) — stronger than guard pages.
#[cfg(miri)]
mod miri_impl {
    use super::Place;
    use httparse::Header;
    use std::mem::MaybeUninit;
    pub struct ByteArena { data: Box<[u8]> }
    impl ByteArena {
        pub fn new(data: &[u8], _place: Place, _align: usize) -> ByteArena { ByteArena { data: data.to_vec().into_boxed_slice() } }
        pub fn bytes<'a>(&'a self) -> &'a [u8] { &self.data }
        pub fn revoke(&self, _on: bool) {}
    }
    pub struct HeaderArena { slots: Box<[MaybeUninit<Header<'static>>]> }
    impl HeaderArena {
        pub fn new(cap: usize, _place: Place) -> HeaderArena {
            HeaderArena { slots: (0..cap).map(|_| MaybeUninit::uninit()).collect::<Vec<_>>().into_boxed_slice() }
        }
        pub fn base(&self) -> *const Header<'static> { self.slots.as_ptr() as *const Header<'static> }
        pub fn slots_mut<'s, 'b>(&'s mut self) -> &'s mut [MaybeUninit<Header<'b>>] {
            // SAFETY: identical layout, lifetime only
            unsafe { std::slice::from_raw_parts_mut(self.slots.as_mut_ptr() as *mut MaybeUninit<Header<'b>>, self.slots.len()) }
        }
        pub fn slots<'s, 'b>(&'s self) -> &'s [MaybeUninit<Header<'b>>] {
            // SAFETY: identical layout, lifetime only
            unsafe { std::slice::from_raw_parts(self.slots.as_ptr() as *const MaybeUninit<Header<'b>>, self.slots.len()) }
        }
    }
}

#[cfg(not(miri))]
extern "C" {
    fn mmap(addr: *mut c_void, len: usize, prot: c_int, flags: c_int, fd: c_int, off: i64) -> *mut c_void;
    fn munmap(addr: *mut c_void, len: usize) -> c_int;
    fn mprotect(addr: *mut c_void, len: usize, prot: c_int) -> c_int;
}
#[cfg(not(miri))]
const PROT_NONE: c_int = 0;
#[cfg(not(miri))]
const PROT_RW: c_int = 3;
#[cfg(not(miri))]
const MAP_PRIVATE_ANON: c_int = 0x22;
#[cfg(not(miri))]
const PAGE: usize = 4096;

#[derive(Clone, Copy, PartialEq, Eq, Debug)]
pub enum Place {
    /// last byte/slot directly before an unmapped page
    EndGuard,
    /// first byte/slot directly after an unmapped page
    StartGuard,
    /// at `32-aligned base + align`, no guard adjacency
    Align,
    /// the buffer starts `align` bytes before a page boundary, both pages mapped (a vector block of the
    /// buffer straddles the page boundary); header array as for EndGuard
    Straddle,
    /// the buffer ENDS `align` bytes before the unmapped page (a read of up to `align` bytes past the end stays
    /// in mapped memory, one of more bytes faults); header array as for EndGuard
    EndGap,
    /// buffer and header array share one mapping and touch: buffer end == array start
    JointBufHdr,
    /// array end == buffer start
    JointHdrBuf,
}

thread_local! {
    /// capacity of the header array that the next Joint* buffer arena has to make room for
    pub static JOINT_CAP: std::cell::Cell<usize> = std::cell::Cell::new(0);
    /// where the next non-empty HeaderArena is to be placed (set by a Joint* buffer arena)
    pub static NEXT_HDR_AT: std::cell::Cell<usize> = std::cell::Cell::new(0);
}

#[cfg(not(miri))]
struct Region {
    base: *mut u8,
    len: usize,
}

#[cfg(not(miri))]
impl Region {
    /// `pages` usable pages with one PROT_NONE page before and one after.
    fn new(pages: usize) -> Region {
        let len = (pages + 2) * PAGE;
        // SAFETY: plain anonymous mapping
        let p = unsafe { mmap(std::ptr::null_mut(), len, PROT_RW, MAP_PRIVATE_ANON, -1, 0) };
        assert!(p as isize != -1, "mmap failed");
        let base = p as *mut u8;
        // SAFETY: both pages are inside the mapping
        unsafe {
            assert_eq!(mprotect(base as *mut c_void, PAGE, PROT_NONE), 0);
            assert_eq!(mprotect(base.add(len - PAGE) as *mut c_void, PAGE, PROT_NONE), 0);
        }
        Region { base, len }
    }
    fn lo(&self) -> *mut u8 {
        // SAFETY: inside the mapping
        unsafe { self.base.add(PAGE) }
    }
    fn hi(&self) -> *mut u8 {
        // SAFETY: inside the mapping
        unsafe { self.base.add(self.len - PAGE) }
    }
}

#[cfg(not(miri))]
impl Drop for Region {
    fn drop(&mut self) {
        // SAFETY: unmapping what we mapped
        unsafe {
            munmap(self.base as *mut c_void, self.len);
        }
    }
}

#[cfg(not(miri))]
pub struct ByteArena {
    _r: Region,
    ptr: *const u8,
    len: usize,
}

#[cfg(not(miri))]
impl ByteArena {
    pub fn new(data: &[u8], place: Place, align: usize) -> ByteArena {
        let hsz = std::mem::size_of::<Header<'static>>();
        let hbytes = JOINT_CAP.with(|c| c.get()) * hsz;
        let pages = (data.len() + hbytes + 64 + PAGE - 1) / PAGE + 3;
        let r = Region::new(pages);
        let ptr = match place {
            // SAFETY: stays inside the usable pages
            Place::EndGuard => unsafe { r.hi().sub(data.len()) },
            Place::StartGuard => r.lo(),
            Place::Align => unsafe { r.lo().add(32 + (align % 32)) },
            // SAFETY: at least three usable pages
            Place::Straddle => unsafe { r.lo().add(PAGE).sub(align % PAGE) },
            Place::EndGap => unsafe { r.hi().sub(data.len() + align % 64) },
            Place::JointBufHdr => {
                // array at the end guard (its size is a multiple of its alignment), buffer right in front of it
                let h = unsafe { r.hi().sub(hbytes) };
                NEXT_HDR_AT.with(|c| c.set(h as usize));
                unsafe { h.sub(data.len()) }
            }
            Place::JointHdrBuf => {
                // buffer start 8-aligned, array right in front of it
                let b = ((r.hi() as usize - data.len()) & !7usize) as *mut u8;
                NEXT_HDR_AT.with(|c| c.set(b as usize - hbytes));
                b
            }
        };
        // SAFETY: `data.len()` bytes are available at `ptr`
        unsafe { std::ptr::copy_nonoverlapping(data.as_ptr(), ptr, data.len()) };
        ByteArena { _r: r, ptr, len: data.len() }
    }
    pub fn bytes<'a>(&'a self) -> &'a [u8] {
        // SAFETY: initialised in `new`
        unsafe { std::slice::from_raw_parts(self.ptr, self.len) }
    }
    /// make the whole mapping inaccessible (`true`) / accessible again: a buffer the caller has given up
    pub fn revoke(&self, on: bool) {
        // SAFETY: our own mapping; nobody dereferences into it while it is revoked (the harness only does
        // address arithmetic on stale fields)
        unsafe {
            assert_eq!(mprotect(self._r.base.add(PAGE) as *mut c_void, self._r.len - 2 * PAGE, if on { PROT_NONE } else { PROT_RW }), 0);
        }
    }
}

#[cfg(not(miri))]
pub struct HeaderArena {
    _r: Region,
    ptr: *mut MaybeUninit<Header<'static>>,
    cap: usize,
}

#[cfg(not(miri))]
impl HeaderArena {
    pub fn new(cap: usize, place: Place) -> HeaderArena {
        let sz = std::mem::size_of::<Header<'static>>();
        let bytes = cap * sz;
        let at = NEXT_HDR_AT.with(|c| c.get());
        if at != 0 && cap > 0 {
            // inside the mapping of a Joint* buffer arena, which outlives this array in every caller
            NEXT_HDR_AT.with(|c| c.set(0));
            return HeaderArena { _r: Region::new(0), ptr: at as *mut MaybeUninit<Header<'static>>, cap };
        }
        let pages = (bytes + PAGE - 1) / PAGE + 1;
        let r = Region::new(pages);
        let p = match place {
            Place::StartGuard => r.lo(),
            // SAFETY: stays inside the usable pages; size is a multiple of the alignment
            _ => unsafe { r.hi().sub(bytes) },
        };
        HeaderArena { _r: r, ptr: p as *mut MaybeUninit<Header<'static>>, cap }
    }
    pub fn base(&self) -> *const Header<'static> {
        self.ptr as *const Header<'static>
    }
    pub fn slots_mut<'s, 'b>(&'s mut self) -> &'s mut [MaybeUninit<Header<'b>>] {
        // SAFETY: `cap` slots are mapped read/write; MaybeUninit needs no initialisation;
        // Header<'static> and Header<'b> have identical layout
        unsafe { std::slice::from_raw_parts_mut(self.ptr as *mut MaybeUninit<Header<'b>>, self.cap) }
    }
    pub fn slots<'s, 'b>(&'s self) -> &'s [MaybeUninit<Header<'b>>] {
        // SAFETY: as above
        unsafe { std::slice::from_raw_parts(self.ptr as *const MaybeUninit<Header<'b>>, self.cap) }
    }
}
