//! hxharness — runs the real httparse entry points on case lines and prints canonical
//! observations, one line per case.  See /verif/DESIGN.md §2.4 / §3.2 and PROTOCOL below.
//!
//! Case line:  `<kind> <args…>`  (space separated; buffers hex encoded, `-` = empty)
//!   req  <cfg> <cap> <hex>            main request entry point (ParserConfig::parse_request)
//!   resp <cfg> <cap> <hex>            main response entry point (ParserConfig::parse_response)
//!   hdrs <cap> <hex>                  parse_headers
//!   chunk <hex>                       parse_chunk_size
//!   reqall/respall <cfg> <cap> <hex>  every request/response entry point + parse_headers relation
//!   hist <kind> <n> (<cfg> <hex>)*n <cfg> <hex> <cap>   n earlier calls on one value, then a probe
//!   scan <backend> <class> <align> <hex>   one scanner of one backend
//!   swar <class> <hex8>               SWAR block kernel
//!   classes                           the four class predicates over all 256 bytes
//!   utf8 <hex>                        core::str::from_utf8(..).is_ok()
//!   place <mode> <kind> <cfg> <cap> <hex>  req/resp/hdrs/chunk with another buffer placement
//!   force <feature> <kind> …          same, with the runtime feature cache forced
//!   info                              build facts (provider, flags, profile)
//! Output line: the case line, then ` => `, then the observation.
#![allow(clippy::all)]

use std::io::{self, BufRead, Write};
use std::mem::MaybeUninit;
use std::panic;

mod gen;
mod mem;

use httparse::{Header, ParserConfig, Request, Response, Status};

// ---------------------------------------------------------------------------------------
// helpers

pub fn unhex(s: &str) -> Option<Vec<u8>> {
    if s == "-" {
        return Some(Vec::new());
    }
    let b = s.as_bytes();
    if b.len() % 2 != 0 {
        return None;
    }
    let mut out = Vec::with_capacity(b.len() / 2);
    let v = |c: u8| -> Option<u8> {
        match c {
            b'0'..=b'9' => Some(c - b'0'),
            b'a'..=b'f' => Some(c - b'a' + 10),
            b'A'..=b'F' => Some(c - b'A' + 10),
            _ => None,
        }
    };
    let mut i = 0;
    while i < b.len() {
        out.push(v(b[i])? * 16 + v(b[i + 1])?);
        i += 2;
    }
    Some(out)
}

pub fn hex(b: &[u8]) -> String {
    if b.is_empty() {
        return "-".to_string();
    }
    const H: &[u8; 16] = b"0123456789abcdef";
    let mut s = String::with_capacity(b.len() * 2);
    for &x in b {
        s.push(H[(x >> 4) as usize] as char);
        s.push(H[(x & 15) as usize] as char);
    }
    s
}

/// bring an existing configuration object to `bits` (each setter called once, with the wanted value)
fn set_config(c: &mut ParserConfig, from: u32, bits: u32) {
    // only the setters of the options that change are called (a setter that forgets to refresh derived state
    // is then not masked by its neighbours)
    let ch = from ^ bits;
    if ch & 1 != 0 { c.allow_spaces_after_header_name_in_responses(bits & 1 != 0); }
    if ch & 2 != 0 { c.allow_obsolete_multiline_headers_in_responses(bits & 2 != 0); }
    if ch & 4 != 0 { c.allow_multiple_spaces_in_request_line_delimiters(bits & 4 != 0); }
    if ch & 8 != 0 { c.allow_multiple_spaces_in_response_status_delimiters(bits & 8 != 0); }
    if ch & 16 != 0 { c.allow_space_before_first_header_name(bits & 16 != 0); }
    if ch & 32 != 0 { c.ignore_invalid_headers_in_responses(bits & 32 != 0); }
    if ch & 64 != 0 { c.ignore_invalid_headers_in_requests(bits & 64 != 0); }
}

pub fn mk_config(bits: u32) -> ParserConfig {
    let mut c = ParserConfig::default();
    // every setter is first called with the opposite value and then with the wanted one, so that a
    // setter that only ever turns an option on (or touches a neighbouring field) is exercised
    c.allow_spaces_after_header_name_in_responses(bits & 1 == 0);
    c.allow_obsolete_multiline_headers_in_responses(bits & 2 == 0);
    c.allow_multiple_spaces_in_request_line_delimiters(bits & 4 == 0);
    c.allow_multiple_spaces_in_response_status_delimiters(bits & 8 == 0);
    c.allow_space_before_first_header_name(bits & 16 == 0);
    c.ignore_invalid_headers_in_responses(bits & 32 == 0);
    c.ignore_invalid_headers_in_requests(bits & 64 == 0);
    c.allow_spaces_after_header_name_in_responses(bits & 1 != 0);
    c.allow_obsolete_multiline_headers_in_responses(bits & 2 != 0);
    c.allow_multiple_spaces_in_request_line_delimiters(bits & 4 != 0);
    c.allow_multiple_spaces_in_response_status_delimiters(bits & 8 != 0);
    c.allow_space_before_first_header_name(bits & 16 != 0);
    c.ignore_invalid_headers_in_responses(bits & 32 != 0);
    c.ignore_invalid_headers_in_requests(bits & 64 != 0);
    c
}

fn err_name(e: httparse::Error) -> &'static str {
    match e {
        httparse::Error::HeaderName => "HeaderName",
        httparse::Error::HeaderValue => "HeaderValue",
        httparse::Error::NewLine => "NewLine",
        httparse::Error::Status => "Status",
        httparse::Error::Token => "Token",
        httparse::Error::TooManyHeaders => "TooManyHeaders",
        httparse::Error::Version => "Version",
    }
}

fn status_str(r: &httparse::Result<usize>) -> String {
    match r {
        Ok(Status::Complete(n)) => format!("C:{}", n),
        Ok(Status::Partial) => "P".to_string(),
        Err(e) => format!("E:{}", err_name(*e)),
    }
}

/// `off+len` relative to `buf`; zero-length => `e` (may live anywhere); non-empty outside => `x`.
fn sl(ptr: *const u8, len: usize, buf: &[u8]) -> String {
    if len == 0 {
        return "e".to_string();
    }
    let b = buf.as_ptr() as usize;
    let p = ptr as usize;
    if p >= b && p + len <= b + buf.len() {
        format!("{}+{}", p - b, len)
    } else {
        "x".to_string()
    }
}

fn osl(s: Option<&str>, buf: &[u8]) -> String {
    match s {
        None => "-".to_string(),
        Some(s) => sl(s.as_ptr(), s.len(), buf),
    }
}

fn onum<T: std::fmt::Display>(v: Option<T>) -> String {
    match v {
        None => "-".to_string(),
        Some(v) => format!("{}", v),
    }
}

const NSENT: usize = 1 << 17;
static SENT: [u8; 2 * NSENT] = [b'S'; 2 * NSENT];

/// when set, `run_request`/`run_response` fill the caller's array with `EMPTY_HEADER` (what a real
/// caller does) instead of recognisable sentinels
static FILL_EMPTY: std::sync::atomic::AtomicBool = std::sync::atomic::AtomicBool::new(false);

fn fill_header(k: usize) -> Header<'static> {
    if FILL_EMPTY.load(std::sync::atomic::Ordering::Relaxed) { httparse::EMPTY_HEADER } else { sentinel(k) }
}

fn sentinel(k: usize) -> Header<'static> {
    let k = k % NSENT;
    // SAFETY: SENT is ASCII
    let name = unsafe { std::str::from_utf8_unchecked(&SENT[k..k + 1]) };
    Header { name, value: &SENT[NSENT + k..NSENT + k + 1] }
}

fn slot_str(h: &Header<'_>, buf: &[u8]) -> String {
    let s = SENT.as_ptr() as usize;
    let np = h.name.as_ptr() as usize;
    if h.name.len() == 1 && np >= s && np < s + NSENT {
        let k = np - s;
        let vp = h.value.as_ptr() as usize;
        if h.value.len() == 1 && vp == s + NSENT + k {
            return format!("s{}", k);
        }
        return "?".to_string();
    }
    format!("{}:{}", sl(h.name.as_ptr(), h.name.len(), buf), sl(h.value.as_ptr(), h.value.len(), buf))
}

fn hdrs_str(hs: &[Header<'_>], buf: &[u8]) -> String {
    if hs.is_empty() {
        return "-".to_string();
    }
    hs.iter().map(|h| slot_str(h, buf)).collect::<Vec<_>>().join(",")
}

pub fn counters_reset() {
    use std::sync::atomic::Ordering::Relaxed;
    httparse::_verif::ADVANCED.store(0, Relaxed);
    httparse::_verif::PEEK_N.store(0, Relaxed);
    httparse::_verif::SSE42_LOADS.store(0, Relaxed);
    httparse::_verif::AVX2_LOADS.store(0, Relaxed);
}

pub fn counters_str() -> String {
    use std::sync::atomic::Ordering::Relaxed;
    format!(
        "adv={} pk={} l16={} l32={}",
        httparse::_verif::ADVANCED.load(Relaxed),
        httparse::_verif::PEEK_N.load(Relaxed),
        httparse::_verif::SSE42_LOADS.load(Relaxed),
        httparse::_verif::AVX2_LOADS.load(Relaxed)
    )
}

// ---------------------------------------------------------------------------------------
// entry points

/// which public entry point to call
#[derive(Clone, Copy, PartialEq, Eq, Debug)]
pub enum Entry {
    Plain,        // Request::parse / Response::parse            (default config only)
    Cfg,          // ParserConfig::parse_request / parse_response
    PlainUninit,  // Request::parse_with_uninit_headers            (requests only, default config)
    CfgUninit,    // ParserConfig::parse_*_with_uninit_headers
}

/// View of `headers` after the call: `view=<len>@<slot offset in A | U<slot offset> | e | x>`
fn view_str(ptr: *const Header<'_>, len: usize, a: (*const u8, usize), u: (*const u8, usize)) -> String {
    if len == 0 {
        return "view=0@e".to_string();
    }
    let p = ptr as usize;
    let hs = std::mem::size_of::<Header<'_>>();
    let within = |base: (*const u8, usize)| -> Option<usize> {
        let b = base.0 as usize;
        if base.1 > 0 && p >= b && p + len * hs <= b + base.1 * hs && (p - b) % hs == 0 {
            Some((p - b) / hs)
        } else {
            None
        }
    };
    if let Some(o) = within(a) {
        format!("view={}@A{}", len, o)
    } else if let Some(o) = within(u) {
        format!("view={}@U{}", len, o)
    } else {
        format!("view={}@x", len)
    }
}

/// Runs one request entry point.  `arr` = the initialised array `Request::new` gets (its current
/// view is `arr[..view]`), `uarr` = the separate array handed to the uninit entry points.
/// Returns the observation string.
fn run_request(entry: Entry, cfgbits: u32, buf: &[u8], acap: usize, ucap: usize, place: mem::Place) -> String {
    let cfg = mk_config(cfgbits);
    let mut a = mem::HeaderArena::new(acap, place);
    let mut u = mem::HeaderArena::new(ucap, place);
    for k in 0..acap {
        a.slots_mut()[k] = MaybeUninit::new(fill_header(k));
    }
    for k in 0..ucap {
        u.slots_mut()[k] = MaybeUninit::new(fill_header(1000 + k));
    }
    let abase = (a.base() as *const u8, acap);
    let ubase = (u.base() as *const u8, ucap);
    counters_reset();
    let (st, m, p, v, view);
    {
        // SAFETY: all `acap` slots were initialised with sentinels above
        let init: &mut [Header<'_>] = unsafe { &mut *(a.slots_mut() as *mut [MaybeUninit<Header<'_>>] as *mut [Header<'_>]) };
        let mut req = Request::new(init);
        let r = match entry {
            Entry::Plain => req.parse(buf),
            Entry::Cfg => cfg.parse_request(&mut req, buf),
            Entry::PlainUninit => req.parse_with_uninit_headers(buf, u.slots_mut()),
            Entry::CfgUninit => cfg.parse_request_with_uninit_headers(&mut req, buf, u.slots_mut()),
        };
        st = status_str(&r);
        m = osl(req.method, buf);
        p = osl(req.path, buf);
        v = onum(req.version);
        view = view_str(req.headers.as_ptr(), req.headers.len(), abase, ubase);
        let hs = if let Ok(Status::Complete(_)) = r { hdrs_str(req.headers, buf) } else { "-".to_string() };
        let cs = counters_str();
        let adump = dump(&a, acap, buf);
        let udump = dump(&u, ucap, buf);
        return format!("{} m={} p={} v={} {} h={} A={} U={} {}", st, m, p, v, view, hs, adump, udump, cs);
    }
}

fn dump(a: &mem::HeaderArena, cap: usize, buf: &[u8]) -> String {
    if cap == 0 {
        return "-".to_string();
    }
    // SAFETY: every slot was initialised with a sentinel and the parser only writes whole headers
    let s: &[Header<'_>] = unsafe { &*(a.slots() as *const [MaybeUninit<Header<'_>>] as *const [Header<'_>]) };
    s.iter().map(|h| slot_str(h, buf)).collect::<Vec<_>>().join(",")
}

fn run_response(entry: Entry, cfgbits: u32, buf: &[u8], acap: usize, ucap: usize, place: mem::Place) -> String {
    let cfg = mk_config(cfgbits);
    let mut a = mem::HeaderArena::new(acap, place);
    let mut u = mem::HeaderArena::new(ucap, place);
    for k in 0..acap {
        a.slots_mut()[k] = MaybeUninit::new(fill_header(k));
    }
    for k in 0..ucap {
        u.slots_mut()[k] = MaybeUninit::new(fill_header(1000 + k));
    }
    let abase = (a.base() as *const u8, acap);
    let ubase = (u.base() as *const u8, ucap);
    counters_reset();
    // SAFETY: all `acap` slots were initialised with sentinels above
    let init: &mut [Header<'_>] = unsafe { &mut *(a.slots_mut() as *mut [MaybeUninit<Header<'_>>] as *mut [Header<'_>]) };
    let mut resp = Response::new(init);
    let r = match entry {
        Entry::Plain => resp.parse(buf),
        Entry::Cfg => cfg.parse_response(&mut resp, buf),
        Entry::PlainUninit => return "NA".to_string(),
        Entry::CfgUninit => cfg.parse_response_with_uninit_headers(&mut resp, buf, u.slots_mut()),
    };
    let st = status_str(&r);
    let v = onum(resp.version);
    let c = onum(resp.code);
    let rs = osl(resp.reason, buf);
    // the bytes of `reason` (C05 speaks about them even when the slice is the static "")
    let view = view_str(resp.headers.as_ptr(), resp.headers.len(), abase, ubase);
    let hs = if let Ok(Status::Complete(_)) = r { hdrs_str(resp.headers, buf) } else { "-".to_string() };
    let cs = counters_str();
    let adump = dump(&a, acap, buf);
    let udump = dump(&u, ucap, buf);
    format!("{} v={} c={} r={} {} h={} A={} U={} {}", st, v, c, rs, view, hs, adump, udump, cs)
}

fn run_headers(buf: &[u8], cap: usize, place: mem::Place) -> String {
    let mut a = mem::HeaderArena::new(cap, place);
    for k in 0..cap {
        a.slots_mut()[k] = MaybeUninit::new(sentinel(k));
    }
    counters_reset();
    let (st, hs);
    {
        // SAFETY: all slots initialised
        let init: &mut [Header<'_>] = unsafe { &mut *(a.slots_mut() as *mut [MaybeUninit<Header<'_>>] as *mut [Header<'_>]) };
        match httparse::parse_headers(buf, init) {
            Ok(Status::Complete((n, h))) => {
                st = format!("C:{}", n);
                hs = hdrs_str(h, buf);
            }
            Ok(Status::Partial) => {
                st = "P".to_string();
                hs = "-".to_string();
            }
            Err(e) => {
                st = format!("E:{}", err_name(e));
                hs = "-".to_string();
            }
        }
    }
    let cs = counters_str();
    format!("{} h={} A={} {}", st, hs, dump(&a, cap, buf), cs)
}

fn run_chunk(buf: &[u8]) -> String {
    counters_reset();
    let r = httparse::parse_chunk_size(buf);
    let cs = counters_str();
    match r {
        Ok(Status::Complete((n, size))) => format!("C:{}:{} {}", n, size, cs),
        Ok(Status::Partial) => format!("P {}", cs),
        Err(_) => format!("E:ChunkSize {}", cs),
    }
}

/// `hist <kind> <cap> <n> (<entry> <cfg> <hex>)*n  <entry> <cfg> <hex>`:
/// n earlier calls on ONE value/array, then a probe; also the probe on a fresh value whose array
/// has the length the reused value's `headers` had before the probe.
fn run_hist(args: &[&str]) -> Option<String> {
    let kind = args.get(0)?;
    let cap: usize = args.get(1)?.parse().ok()?;
    let n: usize = args.get(2)?.parse().ok()?;
    if args.len() != 3 + 3 * (n + 1) {
        return None;
    }
    let mut calls = Vec::new();
    for i in 0..=n {
        let e: u32 = args[3 + 3 * i].parse().ok()?;
        let c: u32 = args[4 + 3 * i].parse().ok()?;
        let b = unhex(args[5 + 3 * i])?;
        calls.push((e, c, b));
    }
    // all buffers must outlive the value: place each at a guard page
    let bufs: Vec<mem::ByteArena> = calls.iter().map(|(_, _, b)| mem::ByteArena::new(b, mem::Place::EndGuard, 0)).collect();
    // the documented loop (parse, read more into the same buffer, parse again): an earlier buffer that is a
    // prefix of the probe's buffer is that prefix *in the same memory*, not a copy elsewhere
    let views: Vec<&[u8]> = (0..=n).map(|i| {
        let (b, p) = (&calls[i].2, &calls[n].2);
        if i < n && b.len() <= p.len() && p[..b.len()] == b[..] { &bufs[n].bytes()[..b.len()] } else { bufs[i].bytes() }
    }).collect();
    // one separate array per call for the uninit entry point (entry code 3); they outlive the value
    let mut uarenas: Vec<mem::HeaderArena> = (0..=n).map(|_| mem::HeaderArena::new(cap, mem::Place::EndGuard)).collect();
    // (pointers with write provenance: derived from `&mut`, not from `base(&self)`)
    let uptrs: Vec<*mut u8> = uarenas.iter_mut().map(|u| u.slots_mut().as_mut_ptr() as *mut u8).collect();
    /// SAFETY: `p` is the base of a live arena of `cap` slots that is used by one call only
    unsafe fn uslice<'a, 'b>(p: *mut u8, cap: usize) -> &'a mut [MaybeUninit<Header<'b>>] {
        std::slice::from_raw_parts_mut(p as *mut MaybeUninit<Header<'b>>, cap)
    }
    let mut a = mem::HeaderArena::new(cap, mem::Place::EndGuard);
    for k in 0..cap {
        a.slots_mut()[k] = MaybeUninit::new(httparse::EMPTY_HEADER);
    }
    let mut out = String::new();
    let view_before;
    let probe_obs;
    // ONE configuration object serves the whole history (reconfigured through its setters between the calls),
    // and for odd `n` it serves a parse of the OTHER message kind under the probe's options right before the probe: the
    // outcome must depend on the option values only, not on what the object was used for before
    let mut shared = ParserConfig::default();
    let mut cur_bits = 0u32;
    let warm = |shared: &ParserConfig| {
        let mut wh = [httparse::EMPTY_HEADER; 4];
        if *kind == "req" {
            let mut w = Response::new(&mut wh);
            let _ = shared.parse_response(&mut w, b"HTTP/1.1 200 OK\r\nA: b\r\n c\r\n\r\n");
        } else {
            let mut w = Request::new(&mut wh);
            let _ = shared.parse_request(&mut w, b"GET / HTTP/1.1\r\nA: b\r\n c\r\n\r\n");
        }
    };
    // buffers of earlier calls that do not share memory with the probe's are given up (made inaccessible)
    // for the duration of the probe call: it must not read them
    let revoke = |on: bool| {
        for i in 0..n {
            let (b, p) = (&calls[i].2, &calls[n].2);
            let shares = b.len() <= p.len() && p[..b.len()] == b[..];
            if !shares && !b.is_empty() { bufs[i].revoke(on); }
        }
    };
    match *kind {
        "req" => {
            // SAFETY: all slots initialised
            let init: &mut [Header<'_>] = unsafe { &mut *(a.slots_mut() as *mut [MaybeUninit<Header<'_>>] as *mut [Header<'_>]) };
            let mut req = Request::new(init);
            for i in 0..n {
                set_config(&mut shared, cur_bits, calls[i].1);
                cur_bits = calls[i].1;
                let cfg = &shared;
                // SAFETY: each uninit array is used by one call only and outlives `req`
                let r = if calls[i].0 == 0 { req.parse(views[i]) } else if calls[i].0 == 3 { cfg.parse_request_with_uninit_headers(&mut req, views[i], unsafe { uslice(uptrs[i], cap) }) } else { cfg.parse_request(&mut req, views[i]) };
                out.push_str(&format!("{};", status_str(&r)));
            }
            view_before = req.headers.len();
            set_config(&mut shared, cur_bits, calls[n].1);
            if n % 2 == 1 { warm(&shared); }
            let cfg = &shared;
            let b = views[n];
            // SAFETY: as above
            revoke(true);
            let r = if calls[n].0 == 0 { req.parse(b) } else if calls[n].0 == 3 { cfg.parse_request_with_uninit_headers(&mut req, b, unsafe { uslice(uptrs[n], cap) }) } else { cfg.parse_request(&mut req, b) };
            revoke(false);
            let hs = if let Ok(Status::Complete(_)) = r { hdrs_str(req.headers, b) } else { "-".to_string() };
            probe_obs = format!("{} m={} p={} v={} view={} h={}", status_str(&r), osl(req.method, b), osl(req.path, b), onum(req.version), req.headers.len(), hs);
        }
        "resp" => {
            // SAFETY: all slots initialised
            let init: &mut [Header<'_>] = unsafe { &mut *(a.slots_mut() as *mut [MaybeUninit<Header<'_>>] as *mut [Header<'_>]) };
            let mut resp = Response::new(init);
            for i in 0..n {
                set_config(&mut shared, cur_bits, calls[i].1);
                cur_bits = calls[i].1;
                let cfg = &shared;
                // SAFETY: as above
                let r = if calls[i].0 == 0 { resp.parse(views[i]) } else if calls[i].0 == 3 { cfg.parse_response_with_uninit_headers(&mut resp, views[i], unsafe { uslice(uptrs[i], cap) }) } else { cfg.parse_response(&mut resp, views[i]) };
                out.push_str(&format!("{};", status_str(&r)));
            }
            view_before = resp.headers.len();
            set_config(&mut shared, cur_bits, calls[n].1);
            if n % 2 == 1 { warm(&shared); }
            let cfg = &shared;
            let b = views[n];
            // SAFETY: as above
            revoke(true);
            let r = if calls[n].0 == 0 { resp.parse(b) } else if calls[n].0 == 3 { cfg.parse_response_with_uninit_headers(&mut resp, b, unsafe { uslice(uptrs[n], cap) }) } else { cfg.parse_response(&mut resp, b) };
            revoke(false);
            let hs = if let Ok(Status::Complete(_)) = r { hdrs_str(resp.headers, b) } else { "-".to_string() };
            probe_obs = format!("{} v={} c={} r={} view={} h={}", status_str(&r), onum(resp.version), onum(resp.code), osl(resp.reason, b), resp.headers.len(), hs);
        }
        _ => return None,
    }
    // fresh value, array of length `view_before`
    let e = if calls[n].0 == 0 { Entry::Plain } else if calls[n].0 == 3 { Entry::CfgUninit } else { Entry::Cfg };
    // (for the uninit entry point the capacity that matters is that of the array handed in)
    let (facap, fucap) = if calls[n].0 == 3 { (0, cap) } else { (view_before, 0) };
    // the fresh value gets what a real caller gives it: an array of EMPTY_HEADER
    FILL_EMPTY.store(true, std::sync::atomic::Ordering::Relaxed);
    let fresh = match *kind {
        "req" => run_request(e, calls[n].1, bufs[n].bytes(), facap, fucap, mem::Place::EndGuard),
        _ => run_response(e, calls[n].1, bufs[n].bytes(), facap, fucap, mem::Place::EndGuard),
    };
    FILL_EMPTY.store(false, std::sync::atomic::Ordering::Relaxed);
    Some(format!("{} ;; {} ;; pre={} vb={}", probe_obs, fresh, if out.is_empty() { "-" } else { &out }, view_before))
}

fn class_table() -> String {
    let mut s = String::new();
    for pred in 0..4u8 {
        if pred > 0 {
            s.push(' ');
        }
        s.push_str(&format!("c{}=", pred));
        for b in 0..=255u8 {
            s.push(if httparse::_verif::class(pred, b) == Some(true) { '1' } else { '0' });
        }
    }
    s
}

fn run_scan(backend: u8, class: u8, align: usize, buf: &[u8]) -> String {
    let arena = mem::ByteArena::new(buf, if align >= 100 { mem::Place::Align } else { mem::Place::EndGuard }, align % 100);
    counters_reset();
    match httparse::_verif::scan(backend, class, arena.bytes()) {
        Some(n) => format!("{} {}", n, counters_str()),
        None => "NA".to_string(),
    }
}

fn info() -> String {
    let f = httparse::_verif::flags();
    format!(
        "provider={} simd={} sse42={} avx2={} neon_intrinsics={} debug_assertions={} swar_block={} std={} runtime={:?} harness_debug={}",
        httparse::_verif::provider(),
        f[0], f[1], f[2], f[3],
        httparse::_verif::debug_assertions(),
        httparse::_verif::swar_block_size(),
        cfg!(feature = "std"),
        httparse::_verif::runtime_feature(),
        cfg!(debug_assertions),
    )
}

fn place_of(s: &str) -> Option<(mem::Place, usize)> {
    if s == "end" {
        Some((mem::Place::EndGuard, 0))
    } else if s == "start" {
        Some((mem::Place::StartGuard, 0))
    } else if let Some(a) = s.strip_prefix("a") {
        Some((mem::Place::Align, a.parse().ok()?))
    } else if let Some(a) = s.strip_prefix("p") {
        Some((mem::Place::Straddle, a.parse().ok()?))
    } else if let Some(a) = s.strip_prefix("g") {
        Some((mem::Place::EndGap, a.parse().ok()?))
    } else if s == "jb" {
        Some((mem::Place::JointBufHdr, 0))
    } else if s == "jh" {
        Some((mem::Place::JointHdrBuf, 0))
    } else {
        None
    }
}

fn run_basic(kind: &str, rest: &[&str], place: mem::Place, align: usize) -> Option<String> {
    match kind {
        "req" | "resp" => {
            let cfg: u32 = rest.get(0)?.parse().ok()?;
            let cap: usize = rest.get(1)?.parse().ok()?;
            let b = unhex(rest.get(2)?)?;
            mem::JOINT_CAP.with(|c| c.set(cap));
            let arena = mem::ByteArena::new(&b, place, align);
            mem::JOINT_CAP.with(|c| c.set(0));
            Some(if kind == "req" {
                run_request(Entry::Cfg, cfg, arena.bytes(), cap, 0, place)
            } else {
                run_response(Entry::Cfg, cfg, arena.bytes(), cap, 0, place)
            })
        }
        "hdrs" => {
            let cap: usize = rest.get(0)?.parse().ok()?;
            let b = unhex(rest.get(1)?)?;
            mem::JOINT_CAP.with(|c| c.set(cap));
            let arena = mem::ByteArena::new(&b, place, align);
            mem::JOINT_CAP.with(|c| c.set(0));
            Some(run_headers(arena.bytes(), cap, place))
        }
        "chunk" => {
            let b = unhex(rest.get(0)?)?;
            let arena = mem::ByteArena::new(&b, place, align);
            Some(run_chunk(arena.bytes()))
        }
        _ => None,
    }
}

fn run_case(line: &str) -> Option<String> {
    let t: Vec<&str> = line.split_ascii_whitespace().collect();
    let kind = *t.get(0)?;
    match kind {
        "req" | "resp" | "hdrs" | "chunk" => run_basic(kind, &t[1..], mem::Place::EndGuard, 0),
        "mu" => {
            let k = *t.get(1)?;
            let cfg = mk_config(t.get(2)?.parse().ok()?);
            let cap: usize = t.get(3)?.parse().ok()?;
            let b = unhex(t.get(4)?)?;
            let arena = mem::ByteArena::new(&b, mem::Place::EndGuard, 0);
            let buf = arena.bytes();
            let mut u: Vec<MaybeUninit<Header<'_>>> = (0..cap).map(|_| MaybeUninit::uninit()).collect();
            Some(if k == "req" {
                let mut r = Request::new(&mut []);
                let st = cfg.parse_request_with_uninit_headers(&mut r, buf, &mut u);
                format!("{} m={} p={} v={} h={}", status_str(&st), osl(r.method, buf), osl(r.path, buf), onum(r.version), hdrs_str(r.headers, buf))
            } else {
                let mut r = Response::new(&mut []);
                let st = cfg.parse_response_with_uninit_headers(&mut r, buf, &mut u);
                format!("{} v={} c={} r={} h={}", status_str(&st), onum(r.version), onum(r.code), osl(r.reason, buf), hdrs_str(r.headers, buf))
            })
        }
        "wit" => run_basic(t.get(2)?, &t[3..], mem::Place::EndGuard, 0),
        "nowit" => Some(t[1..].join(" ")),
        "place" => {
            let (pl, al) = place_of(t.get(1)?)?;
            run_basic(t.get(2)?, &t[3..], pl, al)
        }
        "force" => {
            let f: u8 = t.get(1)?.parse().ok()?;
            if !httparse::_verif::set_runtime_feature(f) {
                return Some("NA".to_string());
            }
            let r = run_basic(t.get(2)?, &t[3..], mem::Place::EndGuard, 0);
            httparse::_verif::set_runtime_feature(0);
            r
        }
        "reqall" | "respall" => {
            let cfg: u32 = t.get(1)?.parse().ok()?;
            let cap: usize = t.get(2)?.parse().ok()?;
            let b = unhex(t.get(3)?)?;
            let arena = mem::ByteArena::new(&b, mem::Place::EndGuard, 0);
            let buf = arena.bytes();
            let mut parts = Vec::new();
            for (_name, e) in [("plain", Entry::Plain), ("cfg", Entry::Cfg), ("plainu", Entry::PlainUninit), ("cfgu", Entry::CfgUninit)] {
                let (acap, ucap) = match e {
                    Entry::Plain | Entry::Cfg => (cap, 0),
                    _ => (2, cap),
                };
                let o = if kind == "reqall" {
                    run_request(e, cfg, buf, acap, ucap, mem::Place::EndGuard)
                } else {
                    run_response(e, cfg, buf, acap, ucap, mem::Place::EndGuard)
                };
                parts.push(o);
            }
            Some(parts.join(" ;; "))
        }
        "hist" => run_hist(&t[1..]),
        "split" => {
            // every prefix of the buffer, same kind / config / capacity
            let k = *t.get(1)?;
            let (head, hexs): (Vec<&str>, &str) = match k {
                "req" | "resp" => (vec![*t.get(2)?, *t.get(3)?], *t.get(4)?),
                "hdrs" => (vec![*t.get(2)?], *t.get(3)?),
                "chunk" => (vec![], *t.get(2)?),
                _ => return None,
            };
            let b = unhex(hexs)?;
            let mut parts = Vec::with_capacity(b.len() + 1);
            for cut in 0..=b.len() {
                let hx = hex(&b[..cut]);
                let mut args: Vec<&str> = head.clone();
                args.push(&hx);
                parts.push(run_basic(k, &args, mem::Place::EndGuard, 0)?);
            }
            Some(parts.join(" ;; "))
        }
        "capsweep" => {
            // the same call under capacities 0..=maxcap
            let k = *t.get(1)?;
            let maxcap: usize = t.get(3)?.parse().ok()?;
            let mut parts = Vec::new();
            for cap in 0..=maxcap {
                let c = cap.to_string();
                parts.push(run_basic(k, &[*t.get(2)?, &c, *t.get(4)?], mem::Place::EndGuard, 0)?);
            }
            Some(parts.join(" ;; "))
        }
        "capsweepj" => {
            // capacity sweep with buffer and header array touching in one mapping (jb: buffer end == array
            // start, jh: array end == buffer start); the largest capacity, the reference, is placed apart
            let (pl, _) = place_of(t.get(1)?)?;
            let k = *t.get(2)?;
            let maxcap: usize = t.get(4)?.parse().ok()?;
            let mut parts = Vec::new();
            for cap in 0..=maxcap {
                let c = cap.to_string();
                parts.push(run_basic(k, &[*t.get(3)?, &c, *t.get(5)?], if cap == maxcap { mem::Place::EndGuard } else { pl }, 0)?);
            }
            Some(parts.join(" ;; "))
        }
        "cfgpair" => {
            let k = *t.get(1)?;
            let a = run_basic(k, &[*t.get(2)?, *t.get(4)?, *t.get(5)?], mem::Place::EndGuard, 0)?;
            let b = run_basic(k, &[*t.get(3)?, *t.get(4)?, *t.get(5)?], mem::Place::EndGuard, 0)?;
            Some(format!("{} ;; {}", a, b))
        }
        "hrel" => {
            let cap = *t.get(1)?;
            let h = unhex(t.get(2)?)?;
            let mut rq = b"GET / HTTP/1.1\r\n".to_vec();
            rq.extend_from_slice(&h);
            let mut rs = b"HTTP/1.1 200 OK\r\n".to_vec();
            rs.extend_from_slice(&h);
            let a = run_basic("hdrs", &[cap, &hex(&h)], mem::Place::EndGuard, 0)?;
            let b = run_basic("req", &["0", cap, &hex(&rq)], mem::Place::EndGuard, 0)?;
            let c = run_basic("resp", &["0", cap, &hex(&rs)], mem::Place::EndGuard, 0)?;
            Some(format!("{} ;; {} ;; {}", a, b, c))
        }
        "scan" => {
            let be: u8 = t.get(1)?.parse().ok()?;
            let cl: u8 = t.get(2)?.parse().ok()?;
            let al: usize = t.get(3)?.parse().ok()?;
            let b = unhex(t.get(4)?)?;
            Some(run_scan(be, cl, al, &b))
        }
        "scanat" => {
            // scanner entered with `skip` bytes already consumed and uncommitted
            let be: u8 = t.get(1)?.parse().ok()?;
            let cl: u8 = t.get(2)?.parse().ok()?;
            let skip: usize = t.get(3)?.parse().ok()?;
            let b = unhex(t.get(4)?)?;
            let arena = mem::ByteArena::new(&b, mem::Place::EndGuard, 0);
            counters_reset();
            Some(match httparse::_verif::scan_after(be, cl, arena.bytes(), skip) {
                Some(n) => format!("{} {}", n, counters_str()),
                None => "NA".to_string(),
            })
        }
        "swar" => {
            let cl: u8 = t.get(1)?.parse().ok()?;
            let b = unhex(t.get(2)?)?;
            if b.len() != 8 {
                return None;
            }
            let mut blk = [0u8; 8];
            blk.copy_from_slice(&b);
            Some(match httparse::_verif::swar_kernel(cl, blk) {
                Some(n) => format!("{}", n),
                None => "NA".to_string(),
            })
        }
        "classes" => Some(class_table()),
        "errtext" => {
            use httparse::Error::*;
            let mut v = Vec::new();
            for (k, e) in [("HeaderName", HeaderName), ("HeaderValue", HeaderValue), ("NewLine", NewLine), ("Status", Status), ("Token", Token), ("TooManyHeaders", TooManyHeaders), ("Version", Version)] {
                v.push(format!("{}={} {}.dbg={:?}", k, format!("{}", e).replace(' ', "_"), k, e));
            }
            v.push(format!("ChunkSize={} ChunkSize.dbg=ChunkSize", format!("{}", httparse::InvalidChunkSize).replace(' ', "_")));
            Some(v.join(" "))
        }
        "utf8" => {
            let b = unhex(t.get(1)?)?;
            Some(if std::str::from_utf8(&b).is_ok() { "1".to_string() } else { "0".to_string() })
        }
        "info" => Some(info()),
        _ => None,
    }
}

#[cfg(not(miri))]
extern "C" {
    fn alarm(seconds: u32) -> u32;
}
#[cfg(miri)]
unsafe fn alarm(_seconds: u32) -> u32 { 0 }

fn cmd_run() -> io::Result<()> {
    panic::set_hook(Box::new(|_| {}));
    let stdin = io::stdin();
    let stdout = io::stdout();
    let mut out = stdout.lock();
    let mut line = String::new();
    let mut inp = stdin.lock();
    loop {
        line.clear();
        if inp.read_line(&mut line)? == 0 {
            break;
        }
        let l = line.trim_end();
        if l.is_empty() || l.starts_with('#') {
            continue;
        }
        // watchdog: a case that does not return within 10 s kills the worker with SIGALRM; the
        // orchestrator attributes the death to exactly this case (C01: termination)
        // SAFETY: plain libc call
        unsafe { alarm(10) };
        let res = panic::catch_unwind(|| run_case(l));
        // SAFETY: plain libc call
        unsafe { alarm(0) };
        let obs = match res {
            Ok(Some(o)) => o,
            Ok(None) => "BADCASE".to_string(),
            Err(_) => "PANIC".to_string(),
        };
        // one write per line so that a crash in the next case loses nothing
        let s = format!("{} => {}\n", l, obs);
        out.write_all(s.as_bytes())?;
        out.flush()?;
    }
    Ok(())
}

fn main() {
    let args: Vec<String> = std::env::args().collect();
    let r = match args.get(1).map(|s| s.as_str()) {
        Some("run") => cmd_run(),
        Some("gen") => gen::cmd_gen(&args[2..]),
        Some("info") => {
            println!("{}", info());
            Ok(())
        }
        Some("cost") => {
            gen::cmd_cost(&args[2..]);
            Ok(())
        }
        Some("scale") => {
            gen::cmd_scale(&args[2..]);
            Ok(())
        }
        Some("race") => {
            // cold-start race: 16 threads make their first parse call at the same moment
            let n: usize = args.get(2).and_then(|s| s.parse().ok()).unwrap_or(16);
            let barrier = std::sync::Arc::new(std::sync::Barrier::new(n));
            let mut hs = Vec::new();
            for _ in 0..n {
                let b = barrier.clone();
                hs.push(std::thread::spawn(move || {
                    let buf: &[u8] = b"GET /0123456789abcdefghijklmnopqrstuvwxyz0123456789abcdefghijklmnopqrstuvwxyz HTTP/1.1\r\nLong-Header-Name-For-Blocks: a-value-that-is-longer-than-thirty-two-bytes-for-avx2 \x7f\r\n\r\n";
                    let mut headers = [httparse::EMPTY_HEADER; 4];
                    let mut req = Request::new(&mut headers);
                    b.wait();
                    let r = req.parse(buf);
                    format!("{} m={} p={}", status_str(&r), osl(req.method, buf), osl(req.path, buf))
                }));
            }
            let outs: Vec<String> = hs.into_iter().map(|h| h.join().unwrap_or_else(|_| "PANIC".to_string())).collect();
            let all_same = outs.iter().all(|o| o == &outs[0]);
            println!("race threads={} all_same={} first=[{}] runtime={:?}", n, all_same, outs[0], httparse::_verif::runtime_feature());
            Ok(())
        }
        _ => {
            eprintln!("usage: hxharness run | gen <family> <tier> <seed> | info");
            std::process::exit(2);
        }
    };
    if let Err(e) = r {
        if e.kind() != io::ErrorKind::BrokenPipe {
            eprintln!("hxharness: {}", e);
            std::process::exit(3);
        }
    }
}
