//! Case generators (DESIGN §3.3).  Everything derives from one SplitMix64 state seeded by the
//! `seed` argument; output is one case line per line on stdout.
//!
//!   hxharness gen <family> <tier> <seed>
//! families: core (G1+G3+G4+G6 for req/resp/hdrs), block (G2), chunk (G9), scan (G8), swar,
//!           utf8 (G11), entries (reqall/respall), hist (G7), place, force, large (G10), split (G5 src)
use crate::hex;
use std::io::{self, BufWriter, Write};

pub struct Rng(pub u64);
impl Rng {
    pub fn next(&mut self) -> u64 {
        self.0 = self.0.wrapping_add(0x9E3779B97F4A7C15);
        let mut z = self.0;
        z = (z ^ (z >> 30)).wrapping_mul(0xBF58476D1CE4E5B9);
        z = (z ^ (z >> 27)).wrapping_mul(0x94D049BB133111EB);
        z ^ (z >> 31)
    }
    pub fn below(&mut self, n: usize) -> usize {
        if n == 0 { 0 } else { (self.next() % n as u64) as usize }
    }
    pub fn chance(&mut self, num: usize, den: usize) -> bool {
        self.below(den) < num
    }
    pub fn pick<'a, T>(&mut self, v: &'a [T]) -> &'a T {
        &v[self.below(v.len())]
    }
}

type Out = BufWriter<io::StdoutLock<'static>>;

/// bytes that sit on a class or syntax boundary
pub const SPECIAL: [u8; 28] = [
    0x00, 0x01, 0x09, 0x0a, 0x0b, 0x0d, 0x1f, 0x20, 0x21, 0x22, 0x2f, 0x30, 0x31, 0x32, 0x39, 0x3a,
    0x3b, 0x41, 0x5a, 0x61, 0x7a, 0x7e, 0x7f, 0x80, 0xc3, 0xa9, 0xe0, 0xff,
];

// cfg bits: 1 san_resp, 2 fold_resp, 4 multi_req, 8 multi_resp, 16 sbf, 32 ign_resp, 64 ign_req
const REQ_TEMPLATES: &[(&[u8], &[u32])] = &[
    (b"GET / HTTP/1.1\r\n\r\n", &[0, 4]),
    (b"GET /a HTTP/1.1\r\nHost: x\r\n\r\n", &[0, 64, 16]),
    (b"\r\n\nPOST /p?q=1 HTTP/1.0\nHost: a\n\n", &[0, 4]),
    (b"POST /submit HTTP/1.1\r\nContent-Length: 0\r\n\r\nbody", &[0]),
    (b"OPTIONS * HTTP/1.1\r\nHost: example.com\r\nAccept: */*\r\nX-Empty:\r\nX-Ws: \t v \t\r\n\r\n", &[0, 64, 80]),
    (b"GET /caf\xc3\xa9/\xe2\x82\xac HTTP/1.1\r\nA: b\r\n\r\n", &[0]),
    (b"GET   /x   HTTP/1.1\r\nA:b\r\n\r\n", &[4, 0]),
    (b"GET / HTTP/1.1\r\n  Host: a\r\n\r\n", &[16, 0, 80]),
    (b"GET / HTTP/1.1\r\nbad line\r\nHost: a\r\nno-colon\r\nK : v\r\n\r\n", &[64, 0, 80]),
    (b"GET / HTTP/1.1\r\nA: b\r\n c\r\nD: e\r\n\r\n", &[0, 64, 2]),
    (b"G /0123456789abcdefghijklmnopqrstuvwxyz0123456789abcdefghijklmnopqrstuvwxyz HTTP/1.1\r\nLong-Header-Name-For-Blocks: a-value-that-is-longer-than-thirty-two-bytes-for-avx2\r\n\r\n", &[0]),
    (b"PUT /x HTTP/1.1\nA: \x80\xff obs\n\n", &[0]),
    (b"GET / HTTP/1.1\r\n \r\n", &[16, 0]),
    (b"GET / HTTP/1.1\r\n\t\r\nA: b\r\n\r\n", &[16, 80]),
    (b"\r\n\nPUT /x HTTP/1.1\r\nA: b\r\nC: d\nE: f\r\n\r\n", &[0, 4]),
    (b"GET /t HTTP/1.1\r\nhost: a\r\ntransfer-encoding: chunked\r\nt: 1\r\n\r\n", &[0, 64]),
];

const RESP_TEMPLATES: &[(&[u8], &[u32])] = &[
    (b"HTTP/1.1 200 OK\r\n\r\n", &[0, 8]),
    (b"HTTP/1.0 404 Not Found\nServer: x\n\n", &[0, 35]),
    (b"HTTP/1.1 200\r\n\r\n", &[0, 8]),
    (b"HTTP/1.1 200 \r\nA: b\r\n\r\n", &[0, 8]),
    (b"HTTP/1.1 200\nA: b\n\n", &[0]),
    (b"\r\n\r\nHTTP/1.1 301 Moved\tPermanently \x80\xff\r\nLocation: /x\r\n\r\n", &[0]),
    (b"HTTP/1.1 200 OK\r\nA: b\r\n c\r\n\td  \r\nE: f\r\n\r\n", &[2, 0, 34, 3]),
    (b"HTTP/1.1 200 OK\r\nA:\r\n b\r\nC:\r\n\r\n", &[2, 0, 34]),
    (b"HTTP/1.1 200 OK\r\nA : b\r\nB\t:c\r\n\r\n", &[1, 0, 33, 32]),
    (b"HTTP/1.1  200  OK\r\nA: b\r\n\r\n", &[8, 0]),
    (b"HTTP/1.1 200 OK\r\n  A: b\r\nC: d\r\n\r\n", &[16, 0, 48, 18]),
    (b"HTTP/1.1 200 OK\r\nbad line\r\nA: b\r\n: novalue\r\nC: d\x01e\r\nE: f\r\n\r\n", &[32, 0, 34, 35, 48]),
    (b"HTTP/1.1 200 OK\r\nA: b\r\n bad\x01fold\r\nC: d\r\n\r\n", &[34, 2, 32]),
    (b"HTTP/1.1 204 No Content\r\nLong-Header-Name-For-Blocks: a-value-that-is-longer-than-thirty-two-bytes-for-avx2 \t \r\nB: c\r\n\r\n", &[0, 2]),
    (b"HTTP/1.1 200 OK\r\n \r\n", &[16, 0, 18]),
    (b"HTTP/1.1 200 OK\r\ncontent-type: text/plain\r\ntransfer-encoding: chunked\r\nte: x\r\n\r\n", &[0, 2, 3, 34]),
    (b"HTTP/1.1 200 OK\r\nA: b\r\n", &[2]),
];

const HDRS_TEMPLATES: &[&[u8]] = &[
    b"Host: a\r\nB:\r\nC:  \r\n\r\n",
    b"A: b\nC: d\n\n",
    b"Name: value with spaces \t and tabs\t \r\n\r\nrest",
    b"\r\n",
    b"A:b\r\nLong-Header-Name-For-Blocks: a-value-that-is-longer-than-thirty-two-bytes-for-avx2\r\n\r\n",
    b"a!#$%&'*+-.^_`|~9Z: \x80\xff\r\n\r\n",
];

const CHUNK_TEMPLATES: &[&[u8]] = &[
    b"0\r\n",
    b"1aF\r\nxx",
    b"FFFFFFFFFFFFFFFF\r\n",
    b"10 ; ext=1\r\n",
    b"A\t;x\ny\r\n",
    b"abcdef0123456789\t \r\n",
    b"7;\r\n",
];

fn line(out: &mut Out, kind: &str, cfg: u32, cap: usize, buf: &[u8]) -> io::Result<()> {
    match kind {
        "hdrs" => writeln!(out, "hdrs {} {}", cap, hex(buf)),
        "chunk" => writeln!(out, "chunk {}", hex(buf)),
        _ => writeln!(out, "{} {} {} {}", kind, cfg, cap, hex(buf)),
    }
}

/// G1: substitution / insertion / deletion at every position, plus truncations of each variant.
fn g1_template(out: &mut Out, rng: &mut Rng, kind: &str, t: &[u8], cfgs: &[u32], thorough: bool) -> io::Result<()> {
    let nlines = t.iter().filter(|&&b| b == b'\n').count();
    let cap = nlines + 1;
    for &cfg in cfgs {
        line(out, kind, cfg, cap, t)?;
        // every prefix
        for k in 0..t.len() {
            line(out, kind, cfg, cap, &t[..k])?;
        }
        for p in 0..t.len() {
            let values: Vec<u8> = if thorough {
                (0..=255u8).collect()
            } else {
                let mut v: Vec<u8> = SPECIAL.to_vec();
                for _ in 0..4 {
                    v.push(rng.below(256) as u8);
                }
                // "confusable" values of the byte that is there: single-bit flips (case folds, high-bit
                // aliases, control-byte aliases of digits) and its numeric neighbours
                let o = t[p];
                v.extend_from_slice(&[o ^ 0x20, o ^ 0x80, o ^ 0x40, o ^ 0x10, o ^ 0x08, o ^ 0x01, o.wrapping_add(1), o.wrapping_sub(1), o & 0x7f, o | 0x20]);
                v.sort_unstable();
                v.dedup();
                v
            };
            for &b in &values {
                if b != t[p] {
                    let mut s = t.to_vec();
                    s[p] = b;
                    line(out, kind, cfg, cap, &s)?;
                    // truncations just after the changed byte
                    let trunc_max = if thorough { 9 } else { 2 };
                    for d in 1..=trunc_max {
                        if p + d < s.len() {
                            line(out, kind, cfg, cap, &s[..p + d])?;
                        }
                    }
                }
                if thorough || rng.chance(1, 3) {
                    let mut s = t[..p].to_vec();
                    s.push(b);
                    s.extend_from_slice(&t[p..]);
                    line(out, kind, cfg, cap, &s)?;
                }
            }
            let mut s = t[..p].to_vec();
            s.extend_from_slice(&t[p + 1..]);
            line(out, kind, cfg, cap, &s)?;
        }
    }
    Ok(())
}

fn g1(out: &mut Out, rng: &mut Rng, thorough: bool) -> io::Result<()> {
    for (t, cfgs) in REQ_TEMPLATES {
        g1_template(out, rng, "req", t, cfgs, thorough)?;
    }
    for (t, cfgs) in RESP_TEMPLATES {
        g1_template(out, rng, "resp", t, cfgs, thorough)?;
    }
    for t in HDRS_TEMPLATES {
        g1_template(out, rng, "hdrs", t, &[0], thorough)?;
    }
    for t in CHUNK_TEMPLATES {
        g1_template(out, rng, "chunk", t, &[0], thorough)?;
    }
    Ok(())
}

/// G6: capacities 0..=k+2 for every template, all configs of the template
fn g6(out: &mut Out) -> io::Result<()> {
    for (t, cfgs) in REQ_TEMPLATES {
        let k = t.iter().filter(|&&b| b == b'\n').count();
        for &cfg in *cfgs {
            for cap in 0..=k + 2 {
                line(out, "req", cfg, cap, t)?;
                for cut in 1..t.len() {
                    if t[cut - 1] == b'\n' || t[cut - 1] == b'\r' {
                        line(out, "req", cfg, cap, &t[..cut])?;
                    }
                }
            }
        }
    }
    for (t, cfgs) in RESP_TEMPLATES {
        let k = t.iter().filter(|&&b| b == b'\n').count();
        for &cfg in *cfgs {
            for cap in 0..=k + 2 {
                line(out, "resp", cfg, cap, t)?;
                for cut in 1..t.len() {
                    if t[cut - 1] == b'\n' || t[cut - 1] == b'\r' {
                        line(out, "resp", cfg, cap, &t[..cut])?;
                    }
                }
            }
        }
    }
    for t in HDRS_TEMPLATES {
        let k = t.iter().filter(|&&b| b == b'\n').count();
        for cap in 0..=k + 2 {
            line(out, "hdrs", 0, cap, t)?;
        }
    }
    Ok(())
}

fn tchars() -> Vec<u8> {
    (0..=255u8)
        .filter(|&b| b.is_ascii_alphanumeric() || b"!#$%&'*+-.^_`|~".contains(&b))
        .collect()
}

fn rand_token(rng: &mut Rng, tc: &[u8], max: usize) -> Vec<u8> {
    let n = 1 + geometric(rng, max);
    (0..n).map(|_| *rng.pick(tc)).collect()
}

fn geometric(rng: &mut Rng, max: usize) -> usize {
    let mut n = 0;
    while n < max && rng.chance(4, 5) {
        n += 1;
    }
    n
}

fn rand_value(rng: &mut Rng, max: usize) -> Vec<u8> {
    let n = geometric(rng, max);
    let mut v = Vec::new();
    for _ in 0..n {
        let r = rng.below(20);
        v.push(match r {
            0 => b' ',
            1 => b'\t',
            2 => 0x80 + rng.below(128) as u8,
            _ => 0x21 + rng.below(0x7e - 0x21 + 1) as u8,
        });
    }
    v
}

fn eol(rng: &mut Rng) -> &'static [u8] {
    if rng.chance(3, 4) { b"\r\n" } else { b"\n" }
}

/// a random well-formed header block for the given option bits (san, fold, sbf, ign)
fn rand_headers(rng: &mut Rng, tc: &[u8], san: bool, fold: bool, sbf: bool, ign: bool) -> Vec<u8> {
    let mut s = Vec::new();
    let n = rng.below(6);
    for i in 0..n {
        if i == 0 && sbf && rng.chance(1, 3) {
            s.extend_from_slice(if rng.chance(1, 2) { b" " } else { b"\t " });
        }
        if ign && rng.chance(1, 5) {
            // an invalid line
            let bad: &[&[u8]] = &[b"no colon here", b": empty name", b"bad name: v", b"a: b\x01c", b" leading", b"x\x7f: y"];
            { let x: &[u8] = *rng.pick(bad); s.extend_from_slice(x); }
            s.extend_from_slice(eol(rng));
            continue;
        }
        s.extend_from_slice(&rand_token(rng, tc, 24));
        if san && rng.chance(1, 3) {
            s.extend_from_slice(if rng.chance(1, 2) { b" " } else { b" \t" });
        }
        s.push(b':');
        for _ in 0..rng.below(3) {
            s.push(if rng.chance(3, 4) { b' ' } else { b'\t' });
        }
        let mut v = rand_value(rng, 40);
        while v.first().map_or(false, |&b| b == b' ' || b == b'\t') {
            v.remove(0);
        }
        s.extend_from_slice(&v);
        for _ in 0..rng.below(2) {
            s.push(b' ');
        }
        s.extend_from_slice(eol(rng));
        if fold {
            for _ in 0..geometric(rng, 2).min(2) {
                if rng.chance(1, 3) {
                    s.push(if rng.chance(1, 2) { b' ' } else { b'\t' });
                    s.extend_from_slice(&rand_value(rng, 12));
                    s.extend_from_slice(eol(rng));
                }
            }
        }
    }
    s.extend_from_slice(eol(rng));
    s
}

fn mutate(rng: &mut Rng, s: &mut Vec<u8>) {
    let k = rng.below(4);
    for _ in 0..k {
        if s.is_empty() {
            return;
        }
        let p = rng.below(s.len());
        match rng.below(6) {
            0 => s[p] = *rng.pick(&SPECIAL),
            1 => {
                s.remove(p);
            }
            2 => s.insert(p, *rng.pick(&SPECIAL)),
            3 => s.truncate(p),
            4 => s[p] = rng.below(256) as u8,
            _ => {
                // duplicate a line
                if let Some(e) = s[p..].iter().position(|&b| b == b'\n') {
                    let start = s[..p].iter().rposition(|&b| b == b'\n').map_or(0, |i| i + 1);
                    let l: Vec<u8> = s[start..p + e + 1].to_vec();
                    let at = p + e + 1;
                    for (i, b) in l.iter().enumerate() {
                        s.insert(at + i, *b);
                    }
                }
            }
        }
    }
}

/// G4: grammar-derived random messages with 0..3 mutations, plus a small malformed stream
fn g4(out: &mut Out, rng: &mut Rng, count: usize) -> io::Result<()> {
    let tc = tchars();
    for i in 0..count {
        let cfg = if rng.chance(1, 2) { 0 } else { rng.below(128) as u32 };
        let which = rng.below(10);
        if which < 4 {
            let hc = (false, false, cfg & 16 != 0, cfg & 64 != 0);
            let mut s = Vec::new();
            for _ in 0..geometric(rng, 2).saturating_sub(1) {
                s.extend_from_slice(eol(rng));
            }
            let m: &[&[u8]] = &[b"GET", b"POST", b"PUT", b"OPTIONS", b"G", b"POSTS", b"GE"];
            if rng.chance(3, 4) { let x: &[u8] = *rng.pick(m); s.extend_from_slice(x); } else { s.extend_from_slice(&rand_token(rng, &tc, 10)); }
            s.push(b' ');
            if cfg & 4 != 0 && rng.chance(1, 2) { s.extend_from_slice(b"  "); }
            s.push(b'/');
            for _ in 0..geometric(rng, 40) {
                let r = rng.below(30);
                if r == 0 { s.extend_from_slice("é".as_bytes()); } else if r == 1 { s.extend_from_slice("€".as_bytes()); } else { s.push(0x21 + rng.below(0x5e) as u8); }
            }
            s.push(b' ');
            if cfg & 4 != 0 && rng.chance(1, 2) { s.push(b' '); }
            s.extend_from_slice(if rng.chance(1, 2) { b"HTTP/1.1" } else { b"HTTP/1.0" });
            s.extend_from_slice(eol(rng));
            s.extend_from_slice(&rand_headers(rng, &tc, hc.0, hc.1, hc.2, hc.3));
            if rng.chance(1, 3) { s.extend_from_slice(b"body\r\n\r\n"); }
            if i % 3 != 0 { mutate(rng, &mut s); }
            let nl = s.iter().filter(|&&b| b == b'\n').count();
            let cap = if rng.chance(1, 6) { rng.below(nl + 2) } else { nl + 1 };
            line(out, "req", cfg, cap, &s)?;
        } else if which < 8 {
            let hc = (cfg & 1 != 0, cfg & 2 != 0, cfg & 16 != 0, cfg & 32 != 0);
            let mut s = Vec::new();
            for _ in 0..geometric(rng, 2).saturating_sub(1) {
                s.extend_from_slice(eol(rng));
            }
            s.extend_from_slice(if rng.chance(1, 2) { b"HTTP/1.1" } else { b"HTTP/1.0" });
            s.push(b' ');
            if cfg & 8 != 0 && rng.chance(1, 2) { s.extend_from_slice(b"  "); }
            for _ in 0..3 { s.push(b'0' + rng.below(10) as u8); }
            match rng.below(4) {
                0 => {}
                1 => s.push(b' '),
                _ => {
                    s.push(b' ');
                    if rng.chance(1, 3) { s.extend_from_slice(b"  "); }
                    for _ in 0..geometric(rng, 20) {
                        let r = rng.below(24);
                        s.push(match r { 0 => b'\t', 1 => b' ', 2 => 0x80 + rng.below(128) as u8, _ => 0x21 + rng.below(0x5e) as u8 });
                    }
                }
            }
            s.extend_from_slice(eol(rng));
            s.extend_from_slice(&rand_headers(rng, &tc, hc.0, hc.1, hc.2, hc.3));
            if i % 3 != 0 { mutate(rng, &mut s); }
            let nl = s.iter().filter(|&&b| b == b'\n').count();
            let cap = if rng.chance(1, 6) { rng.below(nl + 2) } else { nl + 1 };
            line(out, "resp", cfg, cap, &s)?;
        } else if which < 9 {
            let mut s = rand_headers(rng, &tc, false, false, false, false);
            if i % 3 != 0 { mutate(rng, &mut s); }
            let nl = s.iter().filter(|&&b| b == b'\n').count();
            let cap = if rng.chance(1, 6) { rng.below(nl + 2) } else { nl + 1 };
            line(out, "hdrs", 0, cap, &s)?;
        } else {
            // malformed stream: random bytes biased to specials
            let n = rng.below(24);
            let s: Vec<u8> = (0..n).map(|_| if rng.chance(2, 3) { *rng.pick(&SPECIAL) } else { rng.below(256) as u8 }).collect();
            let k = *rng.pick(&["req", "resp", "hdrs", "chunk"]);
            line(out, k, cfg, 2, &s)?;
        }
    }
    Ok(())
}

/// G3: every token at every length 0..=maxlen, terminator or offending byte at every offset,
/// shifted through lane phases by a filler header
fn g3(out: &mut Out, rng: &mut Rng, thorough: bool) -> io::Result<()> {
    let maxlen = if thorough { 100 } else { 70 };
    let phases: Vec<usize> = if thorough { (0..=70).collect() } else { vec![0, 1, 7, 8, 15, 16, 17, 31, 32, 33, 63] };
    let bad: Vec<u8> = if thorough { (0..=255u8).collect() } else { vec![0x00, 0x09, 0x0a, 0x0d, 0x1f, 0x20, 0x3a, 0x7f, 0x80, 0xff, 0x22, 0x40] };
    for len in 0..=maxlen {
        for &ph in &phases {
            // request target of length `len` at phase `ph`
            let mut s = b"GET ".to_vec();
            s.extend(std::iter::repeat(b'/').take(ph));
            s.extend((0..len).map(|i| b'a' + (i % 26) as u8));
            let tail = b" HTTP/1.1\r\n\r\n";
            let mut full = s.clone();
            full.extend_from_slice(tail);
            line(out, "req", 0, 1, &full)?;
            // header value / name of length len after a filler of ph bytes
            let mut h = Vec::new();
            if ph > 0 {
                h.extend_from_slice(b"F:");
                h.extend(std::iter::repeat(b'f').take(ph));
                h.extend_from_slice(b"\r\n");
            }
            let base = h.len();
            h.extend((0..len.max(1)).map(|i| b'A' + (i % 26) as u8));
            h.extend_from_slice(b": ");
            h.extend((0..len).map(|i| b'a' + (i % 26) as u8));
            h.extend_from_slice(b"\r\n\r\n");
            line(out, "hdrs", 0, 3, &h)?;
            // one offending byte at a random / every offset
            let offs: Vec<usize> = if thorough { (0..len).collect() } else { (0..3).map(|_| rng.below(len.max(1))).collect() };
            for &o in &offs {
                if o >= len { continue; }
                let b = bad[rng.below(bad.len())];
                let mut f2 = full.clone();
                f2[4 + ph + o] = b;
                line(out, "req", 0, 1, &f2)?;
                let mut h2 = h.clone();
                let vpos = base + len.max(1) + 2 + o;
                h2[vpos] = b;
                line(out, "hdrs", 0, 3, &h2)?;
                let mut h3 = h.clone();
                h3[base + o] = b;
                line(out, "hdrs", 0, 3, &h3)?;
                let mut r = b"HTTP/1.1 200 ".to_vec();
                r.extend((0..len).map(|i| b'a' + (i % 26) as u8));
                r[13 + o] = b;
                r.extend_from_slice(b"\r\n\r\n");
                line(out, "resp", 0, 1, &r)?;
            }
        }
    }
    // long tokens (>= 128 bytes): stop bytes at and around multiples of 32
    for &len in &[128usize, 130, 161, 200, 260] {
        for p in (0..len).step_by(16).flat_map(|m| vec![m, m + 1, m + 15]).filter(|&p| p < len) {
            for &b in &[0x00u8, 0x7f, 0x0d, 0x0a, 0x20, 0x09, 0x1f] {
                let mut h = b"A: ".to_vec();
                let at = h.len();
                h.extend((0..len).map(|i| b'a' + (i % 26) as u8));
                h[at + p] = b;
                h.extend_from_slice(b"\r\nB: c\r\n\r\n");
                line(out, "hdrs", 0, 3, &h)?;
                let mut r = b"GET /".to_vec();
                let at = r.len();
                r.extend((0..len).map(|i| b'a' + (i % 26) as u8));
                r[at + p] = b;
                r.extend_from_slice(b" HTTP/1.1\r\n\r\n");
                line(out, "req", 0, 1, &r)?;
            }
        }
    }
    // obsolete folds after long values: the value scanner is re-entered on the continuation line with a
    // non-empty uncommitted token behind the cursor; continuation and tail lengths around vector widths
    for first in [1usize, 15, 16, 17, 30, 31, 32, 33, 36, 47, 48, 63, 64, 65, 70] {
        for cont in [0usize, 1, 3, 15, 16, 17, 30, 31, 32, 33, 40] {
            for (ws, eol) in [(b' ', &b"\r\n"[..]), (b'\t', &b"\n"[..])] {
                for cfg in [2u32, 3, 34, 0] {
                    let mut r = b"HTTP/1.1 200 OK\r\nA: ".to_vec();
                    r.extend((0..first).map(|i| b'a' + (i % 26) as u8));
                    r.extend_from_slice(eol);
                    r.push(ws);
                    r.extend((0..cont).map(|i| b'b' + (i % 20) as u8));
                    r.extend_from_slice(eol);
                    r.extend_from_slice(b"B: c\r\n\r\n");
                    line(out, "resp", cfg, 3, &r)?;
                    let cut = r.len() - 10;
                    line(out, "resp", cfg, 3, &r[..cut])?;
                }
            }
        }
    }
    // very many header lines (counters narrower than usize)
    for &k in &[255usize, 256, 257, 300] {
        let mut h = Vec::new();
        for i in 0..k { h.extend_from_slice(format!("h{}: {}\r\n", i % 10, i % 7).as_bytes()); }
        h.extend_from_slice(b"\r\n");
        line(out, "hdrs", 0, k + 1, &h)?;
        line(out, "hdrs", 0, k, &h)?;
        let mut r = b"GET / HTTP/1.1\r\n".to_vec(); r.extend_from_slice(&h);
        line(out, "req", 0, k + 1, &r)?;
        let mut r = b"HTTP/1.1 200 OK\r\n".to_vec(); r.extend_from_slice(&h);
        line(out, "resp", 0, k + 1, &r)?;
    }
    // all 1000 status codes and a few non-codes
    for c in 0..1000 {
        let s = format!("HTTP/1.1 {:03} X\r\n\r\n", c);
        line(out, "resp", 0, 1, s.as_bytes())?;
    }
    Ok(())
}

/// G2: all strings over a class alphabet up to length L after resume contexts × option sets
fn g2(out: &mut Out, maxlen: usize, full_cross: bool) -> io::Result<()> {
    const ALPHA: [u8; 13] = [b'a', b'1', b':', b' ', b'\t', b'\r', b'\n', 0x00, 0x01, 0x7f, 0x80, b'"', b';'];
    let contexts: &[&[u8]] = &[b"", b"H: v\r\n", b"a", b"a:", b"a: v", b"a: v\r\n ", b" "];
    // the 16 header-option sets as response cfg bits (san=1, fold=2, sbf=16, ign=32)
    let resp_sets: Vec<u32> = (0..16u32).map(|m| (m & 1) | (m & 2) | ((m >> 2 & 1) << 4) | ((m >> 3 & 1) << 5)).collect();
    let req_sets: [u32; 4] = [0, 16, 64, 80];
    let mut idx = vec![0usize; maxlen];
    for len in 0..=maxlen {
        for i in 0..len { idx[i] = 0; }
        loop {
            let s: Vec<u8> = (0..len).map(|i| ALPHA[idx[i]]).collect();
            for ctx in contexts {
                let mut hb = ctx.to_vec();
                hb.extend_from_slice(&s);
                line(out, "hdrs", 0, 3, &hb)?;
                let sets: &[u32] = if full_cross || len <= maxlen.saturating_sub(1) { &resp_sets } else { &resp_sets[..1] };
                for &c in sets {
                    let mut m = b"HTTP/1.1 200 OK\r\n".to_vec();
                    m.extend_from_slice(&hb);
                    line(out, "resp", c, 3, &m)?;
                }
                let rsets: &[u32] = if full_cross || len <= maxlen.saturating_sub(1) { &req_sets } else { &req_sets[..1] };
                for &c in rsets {
                    let mut m = b"GET / HTTP/1.1\r\n".to_vec();
                    m.extend_from_slice(&hb);
                    line(out, "req", c, 3, &m)?;
                }
            }
            // next index vector
            let mut i = 0;
            while i < len {
                idx[i] += 1;
                if idx[i] < ALPHA.len() { break; }
                idx[i] = 0;
                i += 1;
            }
            if i == len { break; }
        }
    }
    Ok(())
}

/// G9: chunk-size lines over a 14-symbol alphabet, digit counts 0..20, long extensions
fn g9(out: &mut Out, rng: &mut Rng, maxlen: usize) -> io::Result<()> {
    const ALPHA: [u8; 14] = [b'0', b'9', b'a', b'F', b'g', b' ', b'\t', b';', b'\r', b'\n', 0x00, b'x', 0xff, b'G'];
    let mut idx = vec![0usize; maxlen];
    for len in 0..=maxlen {
        for i in 0..len { idx[i] = 0; }
        loop {
            let s: Vec<u8> = (0..len).map(|i| ALPHA[idx[i]]).collect();
            writeln!(out, "chunk {}", hex(&s))?;
            let mut t = s.clone();
            t.extend_from_slice(b"\r\n");
            writeln!(out, "chunk {}", hex(&t))?;
            let mut i = 0;
            while i < len {
                idx[i] += 1;
                if idx[i] < ALPHA.len() { break; }
                idx[i] = 0;
                i += 1;
            }
            if i == len { break; }
        }
    }
    for n in 0..=20usize {
        for pat in 0..6 {
            let d: Vec<u8> = (0..n).map(|i| match pat {
                0 => b'0', 1 => b'f', 2 => b'F', 3 => if i == 0 { b'1' } else { b'0' },
                4 => if i == 0 { b'f' } else { b'0' + rng.below(10) as u8 },
                _ => *rng.pick(&b"0123456789abcdefABCDEF"[..]),
            }).collect();
            for tail in [&b"\r\n"[..], b" \r\n", b";ext\r\n", b"\r", b"", b"\t ; a=b\r\n", b"\n", b"\r\r\n", b"g\r\n"] {
                let mut s = d.clone();
                s.extend_from_slice(tail);
                writeln!(out, "chunk {}", hex(&s))?;
            }
        }
    }
    // every byte value at every position of size lines with 1..17 digits (helpers that are more lenient than
    // the grammar, e.g. a radix parser that takes a sign), with and without data behind the line
    for n in 1..=17usize {
        for tail in [&b"\r\n"[..], b" \r\n", b";x\r\n", b"\r\nabc"] {
            let mut base: Vec<u8> = (0..n).map(|i| if i == 0 { b'1' } else { b'0' }).collect();
            base.extend_from_slice(tail);
            for p in 0..base.len() {
                for b in 0..=255u8 {
                    if b == base[p] { continue; }
                    let mut t = base.clone();
                    t[p] = b;
                    writeln!(out, "chunk {}", hex(&t))?;
                    if p < n && b == b'+' { writeln!(out, "chunk {}", hex(&t[..n]))?; }
                }
            }
        }
    }
    for _ in 0..200 {
        let mut s = b"1f;".to_vec();
        for _ in 0..rng.below(120) {
            let b = rng.below(256) as u8;
            s.push(b);
        }
        s.extend_from_slice(b"\r\n");
        writeln!(out, "chunk {}", hex(&s))?;
    }
    Ok(())
}

/// G8: scanner cases: backend × class × length × position × value; alignments; pairs
fn g8(out: &mut Out, rng: &mut Rng, thorough: bool) -> io::Result<()> {
    let maxlen = 100usize;
    let fill = [b'a', b'_', b'~', b'0'];
    for backend in 0..4u8 {
        for class in 0..3u8 {
            if (backend == 1 || backend == 2) && class == 2 { continue; }
            for len in 0..=maxlen {
                let base: Vec<u8> = (0..len).map(|i| fill[i % 4]).collect();
                writeln!(out, "scan {} {} 0 {}", backend, class, hex(&base))?;
                let positions: Vec<usize> = if thorough { (0..len).collect() } else {
                    let mut v: Vec<usize> = vec![0, len.saturating_sub(1), len / 2, 7, 8, 15, 16, 31, 32].into_iter().filter(|&p| p < len).collect();
                    for _ in 0..3 { if len > 0 { v.push(rng.below(len)); } }
                    v.sort(); v.dedup(); v
                };
                for &p in &positions {
                    let vals: Vec<u8> = if thorough || p % 5 == 0 { (0..=255u8).collect() } else { SPECIAL.to_vec() };
                    for &b in &vals {
                        let mut s = base.clone();
                        s[p] = b;
                        writeln!(out, "scan {} {} 0 {}", backend, class, hex(&s))?;
                    }
                }
                // pairs of offending positions
                if len >= 2 {
                    for _ in 0..(if thorough { 20 } else { 3 }) {
                        let p = rng.below(len);
                        let q = rng.below(len);
                        let mut s = base.clone();
                        s[p] = *rng.pick(&[0x00u8, 0x20, 0x7f, 0x3a, 0x0a]);
                        s[q] = *rng.pick(&[0x00u8, 0x20, 0x7f, 0x3a, 0x0d]);
                        writeln!(out, "scan {} {} 0 {}", backend, class, hex(&s))?;
                    }
                }
                // alignments
                if len % 9 == 0 || thorough {
                    for al in 0..32 {
                        let mut s = base.clone();
                        if len > 0 { let p = rng.below(len); s[p] = 0x7f; }
                        writeln!(out, "scan {} {} {} {}", backend, class, 100 + al, hex(&s))?;
                    }
                }
            }
        }
    }
    // long inputs (grouped / unrolled vector loops): one or two offending bytes at and around every
    // multiple of 8, for lengths around 128, 160, 256 and 300
    for backend in 0..4u8 {
        for class in 0..3u8 {
            if (backend == 1 || backend == 2) && class == 2 { continue; }
            for &len in &[127usize, 128, 129, 130, 159, 160, 161, 192, 255, 256, 257, 300] {
                let base: Vec<u8> = (0..len).map(|i| fill[i % 4]).collect();
                writeln!(out, "scan {} {} 0 {}", backend, class, hex(&base))?;
                let mut pos: Vec<usize> = Vec::new();
                for m in (0..len).step_by(8) { for d in [0usize, 1, 7] { if m + d < len { pos.push(m + d); } } }
                for &p in &pos {
                    for &b in &[0x00u8, 0x7f, 0x20, 0x0a, 0x0d, 0x3a, 0x09] {
                        let mut s = base.clone();
                        s[p] = b;
                        writeln!(out, "scan {} {} 0 {}", backend, class, hex(&s))?;
                        if thorough || p % 32 == 0 {
                            let q = rng.below(len);
                            s[q] = 0x7f;
                            writeln!(out, "scan {} {} 0 {}", backend, class, hex(&s))?;
                        }
                    }
                }
            }
        }
    }
    // scanners entered with an uncommitted prefix behind the cursor (continuation line of a folded value):
    // the prefix holds out-of-class bytes (CR LF, NUL), the scanned part is in class up to a stop byte
    for backend in [0u8, 3] {
        for class in 0..3u8 {
            for &skip in &[1usize, 2, 7, 8, 9, 16, 30, 31, 32, 33, 40, 64] {
                for &run in &[0usize, 1, 5, 15, 16, 17, 29, 30, 31, 32, 33, 47, 63, 64, 65, 90] {
                    for &stop in &[Some(0x0du8), Some(0x00), Some(0x7f), None] {
                        let mut s: Vec<u8> = (0..skip).map(|i| if i % 3 == 2 { b'a' } else if i % 3 == 0 { 0x0d } else { 0x0a }).collect();
                        if skip >= 2 { let k = skip - 2; s[k] = 0x0d; s[k + 1] = 0x0a; }
                        s.extend((0..run).map(|i| fill[i % 4]));
                        if let Some(b) = stop { s.push(b); s.extend_from_slice(b"tail"); }
                        writeln!(out, "scanat {} {} {} {}", backend, class, skip, hex(&s))?;
                    }
                }
            }
        }
    }
    Ok(())
}

/// SWAR kernels over a boundary-value alphabet ^ 8
fn g_swar(out: &mut Out, rng: &mut Rng, thorough: bool) -> io::Result<()> {
    const A8: [u8; 8] = [0x00, 0x1f, 0x20, 0x21, 0x7e, 0x7f, 0x80, 0xff];
    for class in 0..3u8 {
        if thorough {
            for n in 0..(8u32.pow(8)) {
                let mut b = [0u8; 8];
                let mut m = n;
                for i in 0..8 { b[i] = A8[(m & 7) as usize]; m >>= 3; }
                writeln!(out, "swar {} {}", class, hex(&b))?;
            }
        } else {
            for n in 0..(8u32.pow(5)) {
                let mut b = [b'a'; 8];
                let mut m = n;
                let off = (n % 4) as usize;
                for i in 0..5 { b[(off + i) % 8] = A8[(m & 7) as usize]; m >>= 3; }
                writeln!(out, "swar {} {}", class, hex(&b))?;
            }
        }
        for _ in 0..20000 {
            let mut b = [0u8; 8];
            for i in 0..8 { b[i] = if rng.chance(1, 2) { *rng.pick(&SPECIAL) } else { rng.below(256) as u8 }; }
            writeln!(out, "swar {} {}", class, hex(&b))?;
        }
        // single byte in every position, all 256 values
        for p in 0..8 {
            for v in 0..=255u8 {
                let mut b = [b'a'; 8];
                b[p] = v;
                writeln!(out, "swar {} {}", class, hex(&b))?;
            }
        }
    }
    Ok(())
}

/// G11: UTF-8: all 1- and 2-byte sequences, boundary 3/4-byte sequences, random concatenations
fn g_utf8(out: &mut Out, rng: &mut Rng, thorough: bool) -> io::Result<()> {
    for a in 0..=255u8 {
        writeln!(out, "utf8 {}", hex(&[a]))?;
        for b in 0..=255u8 {
            writeln!(out, "utf8 {}", hex(&[a, b]))?;
        }
    }
    let lead3: Vec<u8> = vec![0xdf, 0xe0, 0xe1, 0xec, 0xed, 0xee, 0xef, 0xf0];
    let second: Vec<u8> = vec![0x7f, 0x80, 0x8f, 0x90, 0x9f, 0xa0, 0xbf, 0xc0];
    for &a in &lead3 { for &b in &second { for &c in &second {
        writeln!(out, "utf8 {}", hex(&[a, b, c]))?;
        writeln!(out, "utf8 {}", hex(&[a, b, c, 0x41]))?;
    }}}
    let lead4: Vec<u8> = vec![0xef, 0xf0, 0xf1, 0xf3, 0xf4, 0xf5, 0xf8, 0xff];
    for &a in &lead4 { for &b in &second { for &c in &second { for &d in &second {
        writeln!(out, "utf8 {}", hex(&[a, b, c, d]))?;
    }}}}
    let pieces: &[&[u8]] = &[b"a", "é".as_bytes(), "€".as_bytes(), "😀".as_bytes(), b"\x80", b"\xc3", b"\xe2\x82", b"\xf0\x9f\x98", b"\xed\xa0\x80", b"\xc0\xaf", b"\xf4\x90\x80\x80", b"/", b"\xef\xbf\xbf"];
    for _ in 0..(if thorough { 200000 } else { 20000 }) {
        let mut s = Vec::new();
        for _ in 0..rng.below(6) { let x: &[u8] = *rng.pick(pieces); s.extend_from_slice(x); }
        writeln!(out, "utf8 {}", hex(&s))?;
        // the same as a request target
        let mut r = b"GET /".to_vec();
        r.extend_from_slice(&s);
        r.extend_from_slice(b" HTTP/1.1\r\n\r\n");
        if !s.iter().any(|&b| b < 0x21 || b == 0x7f) {
            writeln!(out, "req 0 1 {}", hex(&r))?;
        }
    }
    Ok(())
}

/// all entry points on identical arguments
fn g_entries(out: &mut Out, rng: &mut Rng, count: usize) -> io::Result<()> {
    for (t, cfgs) in REQ_TEMPLATES {
        let k = t.iter().filter(|&&b| b == b'\n').count();
        for &cfg in cfgs.iter().chain([0u32].iter()) {
            for cap in 0..=k + 1 {
                writeln!(out, "reqall {} {} {}", cfg, cap, hex(t))?;
                for cut in (0..t.len()).step_by(3) {
                    writeln!(out, "reqall {} {} {}", cfg, cap, hex(&t[..cut]))?;
                }
            }
        }
    }
    for (t, cfgs) in RESP_TEMPLATES {
        let k = t.iter().filter(|&&b| b == b'\n').count();
        for &cfg in cfgs.iter().chain([0u32].iter()) {
            for cap in 0..=k + 1 {
                writeln!(out, "respall {} {} {}", cfg, cap, hex(t))?;
                for cut in (0..t.len()).step_by(3) {
                    writeln!(out, "respall {} {} {}", cfg, cap, hex(&t[..cut]))?;
                }
            }
        }
    }
    // many minimal header lines (3-byte `x:\n`, 4-byte `x:\r\n` / `x:y\n`) at exactly-fitting capacities
    for k in (0..48usize).step_by(3).chain([15usize, 16, 19, 20, 31, 32, 33, 127, 128, 255, 256, 257, 300].iter().cloned()) {
        for line in [&b"x:\n"[..], b"x:\r\n", b"x:y\n", b"ab: c\r\n"] {
            for (kind, start) in [("reqall", &b"GET / HTTP/1.1\n"[..]), ("respall", &b"HTTP/1.1 200\n"[..]), ("respall", &b"HTTP/1.1 200 OK\r\n"[..])] {
                let mut s = start.to_vec();
                for _ in 0..k { s.extend_from_slice(line); }
                s.extend_from_slice(b"\n");
                for cap in [k, k + 1] {
                    writeln!(out, "{} 0 {} {}", kind, cap, hex(&s))?;
                }
            }
        }
    }
    for _ in 0..count {
        let (t, _) = rng.pick(REQ_TEMPLATES);
        let mut s = t.to_vec();
        mutate(rng, &mut s);
        writeln!(out, "reqall {} {} {}", rng.below(128), rng.below(5), hex(&s))?;
        let (t, _) = rng.pick(RESP_TEMPLATES);
        let mut s = t.to_vec();
        mutate(rng, &mut s);
        writeln!(out, "respall {} {} {}", rng.below(128), rng.below(5), hex(&s))?;
    }
    Ok(())
}

/// G7: histories: 1..4 earlier calls on one value, then a probe
fn g_hist(out: &mut Out, rng: &mut Rng, count: usize) -> io::Result<()> {
    for _ in 0..count {
        let isreq = rng.chance(1, 2);
        let n = 1 + rng.below(4);
        let cap = rng.below(6);
        let mut l = format!("hist {} {} {}", if isreq { "req" } else { "resp" }, cap, n);
        if rng.chance(1, 2) {
            // the documented loop: growing prefixes of one message (same memory in the harness), the
            // configuration possibly changing between the calls
            let (t, cfgs) = if isreq { rng.pick(REQ_TEMPLATES) } else { rng.pick(RESP_TEMPLATES) };
            let mut s = t.to_vec();
            if rng.chance(1, 3) { mutate(rng, &mut s); }
            let mut cuts: Vec<usize> = (0..n).map(|_| if rng.chance(1, 3) { s.len() } else { rng.below(s.len() + 1) }).collect();
            if rng.chance(2, 3) { cuts.sort_unstable(); }
            cuts.push(if rng.chance(3, 4) { s.len() } else { rng.below(s.len() + 1) });
            for &c in &cuts {
                let cfg = match rng.below(3) { 0 => 0, 1 => *rng.pick(cfgs), _ => rng.below(128) as u32 };
                let entry = if rng.chance(1, 4) { 3 } else if cfg == 0 && rng.chance(1, 2) { 0 } else { 1 };
                l.push_str(&format!(" {} {} {}", entry, cfg, hex(&s[..c])));
            }
            writeln!(out, "{}", l)?;
            continue;
        }
        for _ in 0..=n {
            let (mut s, cfg) = if isreq {
                let (t, cfgs) = rng.pick(REQ_TEMPLATES);
                (t.to_vec(), *rng.pick(cfgs))
            } else {
                let (t, cfgs) = rng.pick(RESP_TEMPLATES);
                (t.to_vec(), *rng.pick(cfgs))
            };
            match rng.below(4) {
                0 => { let p = rng.below(s.len() + 1); s.truncate(p); }
                1 => mutate(rng, &mut s),
                _ => {}
            }
            let entry = if rng.chance(1, 4) { 3 } else if cfg == 0 && rng.chance(1, 2) { 0 } else { 1 };
            l.push_str(&format!(" {} {} {}", entry, cfg, hex(&s)));
        }
        writeln!(out, "{}", l)?;
    }
    Ok(())
}

/// placements: start guard and alignments 0..31, and forced runtime features, on templates
fn g_place(out: &mut Out, rng: &mut Rng, count: usize) -> io::Result<()> {
    let places: Vec<String> = ["start", "jb", "jh", "g1", "g8", "g17", "g31", "p1", "p9", "p20", "p33"].iter().map(|s| s.to_string()).chain((0..32).map(|a| format!("a{}", a))).collect();
    let emit = |out: &mut Out, kind: &str, cfg: u32, cap: usize, s: &[u8], rng: &mut Rng| -> io::Result<()> {
        let pl = rng.pick(&places).clone();
        match kind {
            "hdrs" => writeln!(out, "place {} hdrs {} {}", pl, cap, hex(s))?,
            "chunk" => writeln!(out, "place {} chunk {}", pl, hex(s))?,
            _ => writeln!(out, "place {} {} {} {} {}", pl, kind, cfg, cap, hex(s))?,
        }
        let f = 1 + rng.below(4);
        match kind {
            "hdrs" => writeln!(out, "force {} hdrs {} {}", f, cap, hex(s))?,
            "chunk" => {}
            _ => writeln!(out, "force {} {} {} {} {}", f, kind, cfg, cap, hex(s))?,
        }
        Ok(())
    };
    for (t, cfgs) in REQ_TEMPLATES {
        for &cfg in *cfgs {
            for p in &places {
                writeln!(out, "place {} req {} 4 {}", p, cfg, hex(t))?;
            }
            for f in 1..=4 {
                writeln!(out, "force {} req {} 4 {}", f, cfg, hex(t))?;
            }
        }
    }
    for (t, cfgs) in RESP_TEMPLATES {
        for &cfg in *cfgs {
            for p in &places {
                writeln!(out, "place {} resp {} 4 {}", p, cfg, hex(t))?;
            }
            for f in 1..=4 {
                writeln!(out, "force {} resp {} 4 {}", f, cfg, hex(t))?;
            }
        }
    }
    // page-straddling placements (a page boundary at every offset of the message), buffers ending 1..63 bytes
    // before the unmapped page (whole and every prefix: a vector load of the tail that runs past the end of the
    // buffer), and buffer / header array touching each other in one mapping (both orders)
    let gaps = [1usize, 2, 7, 8, 9, 15, 16, 17, 24, 31, 32, 33, 63];
    for (kind, list) in [("req", REQ_TEMPLATES), ("resp", RESP_TEMPLATES)] {
        for (t, cfgs) in list {
            let k = t.iter().filter(|&&b| b == b'\n').count();
            let cfg = cfgs[0];
            for off in 1..=t.len() {
                writeln!(out, "place p{} {} {} {} {}", off, kind, cfg, k + 1, hex(t))?;
            }
            for &g in &gaps {
                writeln!(out, "place g{} {} {} {} {}", g, kind, cfg, k + 1, hex(t))?;
            }
            for cut in 1..t.len() {
                for &g in &[1usize, 8, 16, 24, 31] {
                    writeln!(out, "place g{} {} {} {} {}", g, kind, cfg, k + 1, hex(&t[..cut]))?;
                }
            }
            for &c in cfgs.iter() {
                for cap in [k + 1, 1, 0] {
                    writeln!(out, "place jb {} {} {} {}", kind, c, cap, hex(t))?;
                    writeln!(out, "place jh {} {} {} {}", kind, c, cap, hex(t))?;
                }
            }
        }
    }
    for t in HDRS_TEMPLATES {
        let k = t.iter().filter(|&&b| b == b'\n').count();
        for off in 1..=t.len() { writeln!(out, "place p{} hdrs {} {}", off, k + 1, hex(t))?; }
        for &g in &gaps { writeln!(out, "place g{} hdrs {} {}", g, k + 1, hex(t))?; }
        for cap in [k + 1, 1] {
            writeln!(out, "place jb hdrs {} {}", cap, hex(t))?;
            writeln!(out, "place jh hdrs {} {}", cap, hex(t))?;
        }
    }
    for t in CHUNK_TEMPLATES {
        for off in 1..=t.len() { writeln!(out, "place p{} chunk {}", off, hex(t))?; }
        for &g in &gaps { writeln!(out, "place g{} chunk {}", g, hex(t))?; }
    }
    // long values / targets with HTAB and obs-text inside every 32-byte block, page boundary at every offset
    for (kind, pre, post) in [("req", &b"GET /"[..], &b" HTTP/1.1\r\nA: b\r\n\r\n"[..]), ("req", b"GET / HTTP/1.1\r\nA: ", b"\r\nB: c\r\n\r\n"), ("resp", b"HTTP/1.1 200 OK\r\nLong-Name-", b": v\r\n\r\n")] {
        let mut x = pre.to_vec();
        let body: Vec<u8> = (0..150usize).map(|i| if pre.ends_with(b": ") && i % 11 == 5 { b'\t' } else if pre.ends_with(b": ") && i % 13 == 7 { 0xe9 } else { b'a' + (i % 26) as u8 }).collect();
        x.extend_from_slice(&body);
        x.extend_from_slice(post);
        for off in 1..=x.len() { writeln!(out, "place p{} {} 0 3 {}", off, kind, hex(&x))?; }
        for cut in (pre.len()..x.len()).step_by(3) {
            for &g in &[1usize, 9, 17, 31] { writeln!(out, "place g{} {} 0 3 {}", g, kind, hex(&x[..cut]))?; }
        }
    }
    for _ in 0..count {
        match rng.below(4) {
            0 => { let (t, c) = rng.pick(REQ_TEMPLATES); let mut s = t.to_vec(); mutate(rng, &mut s); let cfg = *rng.pick(c); emit(out, "req", cfg, 3, &s, rng)?; }
            1 => { let (t, c) = rng.pick(RESP_TEMPLATES); let mut s = t.to_vec(); mutate(rng, &mut s); let cfg = *rng.pick(c); emit(out, "resp", cfg, 3, &s, rng)?; }
            2 => { let t = rng.pick(HDRS_TEMPLATES); let mut s = t.to_vec(); mutate(rng, &mut s); emit(out, "hdrs", 0, 3, &s, rng)?; }
            _ => { let t = rng.pick(CHUNK_TEMPLATES); let mut s = t.to_vec(); mutate(rng, &mut s); emit(out, "chunk", 0, 0, &s, rng)?; }
        }
    }
    Ok(())
}

/// G5: messages whose every prefix is parsed (C02); also config pairs (C15) and the
/// parse_headers relation (C16)
fn g_split(out: &mut Out, rng: &mut Rng, count: usize) -> io::Result<()> {
    for (t, cfgs) in REQ_TEMPLATES {
        let k = t.iter().filter(|&&b| b == b'\n').count();
        for &cfg in *cfgs {
            writeln!(out, "split req {} {} {}", cfg, k + 1, hex(t))?;
            writeln!(out, "split req {} {} {}", cfg, 1, hex(t))?;
        }
    }
    for (t, cfgs) in RESP_TEMPLATES {
        let k = t.iter().filter(|&&b| b == b'\n').count();
        for &cfg in *cfgs {
            writeln!(out, "split resp {} {} {}", cfg, k + 1, hex(t))?;
            writeln!(out, "split resp {} {} {}", cfg, 1, hex(t))?;
        }
    }
    for t in HDRS_TEMPLATES { writeln!(out, "split hdrs 4 {}", hex(t))?; }
    // chunk-size lines: every byte value in front of / inside a short digit run, then the line end and data
    for n in [1usize, 2, 3, 7, 8, 16] {
        for p in [0usize, n / 2, n] {
            for b in 0..=255u8 {
                let mut x: Vec<u8> = (0..n).map(|i| if i == 0 { b'1' } else { b'f' }).collect();
                x.insert(p.min(x.len()), b);
                x.extend_from_slice(b"\r\nx");
                writeln!(out, "split chunk {}", hex(&x))?;
            }
        }
    }
    // a body in the same read: bytes behind the complete head must not change the answer
    for (kind, list) in [("req", REQ_TEMPLATES), ("resp", RESP_TEMPLATES)] {
        for (t, cfgs) in list {
            let k = t.iter().filter(|&&b| b == b'\n').count();
            for &cfg in cfgs.iter() {
                for &b in &[0u8, b'\r', b'\n', b' ', 0xff, b'a'] {
                    let mut x = t.to_vec();
                    x.extend(std::iter::repeat(b).take(9));
                    writeln!(out, "split {} {} {} {}", kind, cfg, k + 1, hex(&x))?;
                }
            }
        }
    }
    for t in CHUNK_TEMPLATES { writeln!(out, "split chunk {}", hex(t))?; }
    for _ in 0..count {
        match rng.below(8) {
            0 | 1 | 2 => { let (t, c) = rng.pick(REQ_TEMPLATES); let mut s = t.to_vec(); mutate(rng, &mut s); writeln!(out, "split req {} {} {}", rng.pick(c), rng.below(5), hex(&s))?; }
            3 | 4 | 5 => { let (t, c) = rng.pick(RESP_TEMPLATES); let mut s = t.to_vec(); mutate(rng, &mut s); writeln!(out, "split resp {} {} {}", rng.pick(c), rng.below(5), hex(&s))?; }
            6 => { let t = rng.pick(HDRS_TEMPLATES); let mut s = t.to_vec(); mutate(rng, &mut s); writeln!(out, "split hdrs {} {}", rng.below(5), hex(&s))?; }
            _ => { let t = rng.pick(CHUNK_TEMPLATES); let mut s = t.to_vec(); mutate(rng, &mut s); writeln!(out, "split chunk {}", hex(&s))?; }
        }
    }
    Ok(())
}

fn g_cfgpair(out: &mut Out, rng: &mut Rng, count: usize, thorough: bool) -> io::Result<()> {
    // every template under all 128 configurations against the default
    for (t, _) in REQ_TEMPLATES {
        for c in 0..128 { writeln!(out, "cfgpair req 0 {} 8 {}", c, hex(t))?; }
    }
    for (t, _) in RESP_TEMPLATES {
        for c in 0..128 { writeln!(out, "cfgpair resp 0 {} 8 {}", c, hex(t))?; }
    }
    // single-byte variants of templates, a few configs each, incl. pairs differing in other-kind options
    for (kind, list) in [("req", REQ_TEMPLATES), ("resp", RESP_TEMPLATES)] {
        for (t, cfgs) in list {
            for p in 0..t.len() {
                let vals: Vec<u8> = if thorough { SPECIAL.to_vec() } else { vec![b' ', b'\t', b'\r', b'\n', 0, b':'] };
                for &b in &vals {
                    let mut s = t.to_vec();
                    s[p] = b;
                    let c = *rng.pick(cfgs);
                    writeln!(out, "cfgpair {} 0 {} 8 {}", kind, rng.below(128), hex(&s))?;
                    let other: u32 = if kind == "req" { c ^ [1u32, 2, 8, 32, 43][rng.below(5)] } else { c ^ [4u32, 64, 68][rng.below(3)] };
                    writeln!(out, "cfgpair {} {} {} 8 {}", kind, c, other, hex(&s))?;
                }
            }
        }
    }
    for _ in 0..count {
        let isreq = rng.chance(1, 2);
        let (t, cfgs) = if isreq { rng.pick(REQ_TEMPLATES) } else { rng.pick(RESP_TEMPLATES) };
        let mut s = t.to_vec();
        if rng.chance(2, 3) { mutate(rng, &mut s); }
        let a = if rng.chance(1, 2) { 0 } else { *rng.pick(cfgs) };
        let b = if a == 0 || rng.chance(1, 2) { rng.below(128) as u32 } else if isreq { a ^ (rng.below(128) as u32 & 43) } else { a ^ (rng.below(128) as u32 & 68) };
        writeln!(out, "cfgpair {} {} {} {} {}", if isreq { "req" } else { "resp" }, a, b, rng.below(6), hex(&s))?;
    }
    Ok(())
}

/// capacity sweeps (C17 capacity law): the same buffer under capacities 0..=k+2
fn g_caps(out: &mut Out, rng: &mut Rng, count: usize) -> io::Result<()> {
    for (kind, list) in [("req", REQ_TEMPLATES), ("resp", RESP_TEMPLATES)] {
        for (t, cfgs) in list {
            let k = t.iter().filter(|&&b| b == b'\n').count();
            for &cfg in cfgs.iter() {
                writeln!(out, "capsweep {} {} {} {}", kind, cfg, k + 2, hex(t))?;
                for cut in 0..t.len() {
                    writeln!(out, "capsweep {} {} {} {}", kind, cfg, k + 1, hex(&t[..cut]))?;
                }
                for p in 0..t.len() {
                    for &b in &[b' ', b'\t', b'\r', b'\n', 0u8, b':', 0x7f, b'a'] {
                        let mut s = t.to_vec();
                        s[p] = b;
                        writeln!(out, "capsweep {} {} {} {}", kind, cfg, k + 1, hex(&s))?;
                    }
                }
            }
        }
    }
    for _ in 0..count {
        let isreq = rng.chance(1, 2);
        let (t, cfgs) = if isreq { rng.pick(REQ_TEMPLATES) } else { rng.pick(RESP_TEMPLATES) };
        let mut s = t.to_vec();
        mutate(rng, &mut s);
        let k = s.iter().filter(|&&b| b == b'\n').count();
        writeln!(out, "capsweep {} {} {} {}", if isreq { "req" } else { "resp" }, rng.pick(cfgs), k + 1, hex(&s))?;
    }
    // the same law when buffer and header array touch in memory
    for (kind, list) in [("req", REQ_TEMPLATES), ("resp", RESP_TEMPLATES)] {
        for (t, cfgs) in list {
            let k = t.iter().filter(|&&b| b == b'\n').count();
            for &cfg in cfgs.iter() {
                for j in ["jb", "jh"] {
                    writeln!(out, "capsweepj {} {} {} {} {}", j, kind, cfg, k + 2, hex(t))?;
                    writeln!(out, "capsweepj {} {} {} {} {}", j, kind, cfg, k + 1, hex(&t[..t.len() - 1]))?;
                }
            }
        }
    }
    Ok(())
}

fn g_hrel(out: &mut Out, rng: &mut Rng, count: usize) -> io::Result<()> {
    let tc = tchars();
    for t in HDRS_TEMPLATES {
        let k = t.iter().filter(|&&b| b == b'\n').count();
        for cap in 0..=k + 1 {
            for cut in 0..=t.len() { writeln!(out, "hrel {} {}", cap, hex(&t[..cut]))?; }
        }
    }
    for _ in 0..count {
        let mut s = rand_headers(rng, &tc, false, false, false, false);
        if rng.chance(2, 3) { mutate(rng, &mut s); }
        writeln!(out, "hrel {} {}", rng.below(7), hex(&s))?;
    }
    Ok(())
}


/// G12: long runs of every repeatable element of the grammar (counters narrower than usize, "hardening"
/// limits, fixed-size scratch): run lengths just past 2^8, 2^10, 2^12 (quick) and past 2^16 (thorough),
/// under the option set that gives the run its lenient meaning and under the default.  Returns
/// (kind, cfg, cap, complete buffer, offset just past the run).
fn long_runs(thorough: bool) -> Vec<(&'static str, u32, usize, Vec<u8>, usize)> {
    long_runs_of(if thorough { &[257, 1025, 4097, 65537] } else { &[257, 1025, 4097] })
}

fn long_runs_of(lens: &[usize]) -> Vec<(&'static str, u32, usize, Vec<u8>, usize)> {
    let lens: Vec<usize> = lens.to_vec();
    let mut v: Vec<(&'static str, u32, usize, Vec<u8>, usize)> = Vec::new();
    let mk = |pre: &[u8], unit: &[u8], n: usize, post: &[u8]| -> (Vec<u8>, usize) {
        let mut s = pre.to_vec();
        for _ in 0..n { s.extend_from_slice(unit); }
        let at = s.len();
        s.extend_from_slice(post);
        (s, at)
    };
    let mut extra: Vec<(&'static str, u32, usize, Vec<u8>, usize)> = Vec::new();
    for &n in &lens {
        let mut add = |kind: &'static str, cfgs: &[u32], cap: usize, pre: &[u8], unit: &[u8], post: &[u8]| {
            let (s, at) = mk(pre, unit, n, post);
            for &c in cfgs { v.push((kind, c, cap, s.clone(), at)); }
        };
        // start lines
        add("req", &[0], 2, b"", b"\r\n", b"GET / HTTP/1.1\r\nA: b\r\n\r\n");
        add("req", &[0], 2, b"", b"\n", b"GET / HTTP/1.1\r\nA: b\r\n\r\n");
        add("resp", &[0], 2, b"", b"\r\n", b"HTTP/1.1 200 OK\r\nA: b\r\n\r\n");
        add("resp", &[0], 2, b"", b"\n", b"HTTP/1.1 200 OK\r\nA: b\r\n\r\n");
        add("req", &[0], 2, b"", b"M", b" / HTTP/1.1\r\nA: b\r\n\r\n");
        add("req", &[4, 0, 127], 2, b"GET", b" ", b"/ HTTP/1.1\r\nA: b\r\n\r\n");
        add("req", &[0], 2, b"GET /", b"a", b" HTTP/1.1\r\nA: b\r\n\r\n");
        add("req", &[0], 2, b"GET /", b"\xc3\xa9", b" HTTP/1.1\r\nA: b\r\n\r\n");
        add("req", &[4, 0, 127], 2, b"GET /", b" ", b"HTTP/1.1\r\nA: b\r\n\r\n");
        add("resp", &[8, 0, 127], 2, b"HTTP/1.1", b" ", b"200 OK\r\nA: b\r\n\r\n");
        add("resp", &[8, 0, 127], 2, b"HTTP/1.1 200", b" ", b"OK\r\nA: b\r\n\r\n");
        add("resp", &[8, 0], 2, b"HTTP/1.1 200", b" ", b"\r\nA: b\r\n\r\n");
        add("resp", &[0, 8], 2, b"HTTP/1.1 200 ", b"r", b"\r\nA: b\r\n\r\n");
        add("resp", &[0, 8], 2, b"HTTP/1.1 200 O", b" ", b"K \r\nA: b\r\n\r\n");
        add("resp", &[0], 2, b"HTTP/1.1 200 ", b"\t\xff", b"\nA: b\n\n");
        // header lines (request, response, parse_headers)
        for (kind, start) in [("req", &b"GET / HTTP/1.1\r\n"[..]), ("resp", &b"HTTP/1.1 200 OK\r\n"[..]), ("hdrs", &b""[..])] {
            let cat = |a: &[u8], b: &[u8]| -> Vec<u8> { let mut x = a.to_vec(); x.extend_from_slice(b); x };
            let all: &[u32] = if kind == "hdrs" { &[0] } else { &[0, 127] };
            add(kind, all, 2, &cat(start, b""), b"N", b": v\r\n\r\n");
            add(kind, all, 2, &cat(start, b"A:"), b" ", b"v\r\n\r\n");
            add(kind, all, 2, &cat(start, b"A:"), b"\t", b"v\r\nB: c\r\n\r\n");
            add(kind, all, 2, &cat(start, b"A:"), b" ", b"\r\n\r\n");
            add(kind, all, 2, &cat(start, b"A: "), b"v", b"\r\n\r\n");
            add(kind, all, 2, &cat(start, b"A: v"), b"\t", b"w\r\n\r\n");
            add(kind, all, 2, &cat(start, b"A: v"), b" x", b"\r\n\r\n");
            add(kind, all, 2, &cat(start, b"A: v"), b"\xff\x80", b"\n\n");
            add(kind, all, 2, &cat(start, b"A: v"), b" ", b"\r\n\r\n");
            add(kind, all, 2, &cat(start, b"A: v"), b"\t", b"\nB: c\n\n");
            if kind == "resp" {
                add(kind, &[1, 0, 33], 2, &cat(start, b"A"), b" ", b": v\r\n\r\n");
                add(kind, &[1, 0], 2, &cat(start, b"A"), b"\t", b":v\r\n\r\n");
                add(kind, &[2, 0, 34], 2, &cat(start, b"A: b\r\n"), b" c\r\n", b"D: e\r\n\r\n");
                add(kind, &[2, 34], 2, &cat(start, b"A:"), b"\r\n ", b"v\r\n\r\n");
                add(kind, &[2], 2, &cat(start, b"A: b"), b"\n\t", b"\n\n");
                add(kind, &[2, 0], 2, &cat(start, b"A: b\r\n"), b" ", b"c\r\n\r\n");
                add(kind, &[32, 0, 34], 2, &cat(start, b""), b":\n", b"A: b\r\n\r\n");
                add(kind, &[32, 0], 2, &cat(start, b"A: b\r\n"), b"junk without colon\r\n", b"\r\n");
                add(kind, &[32, 0], 2, &cat(start, b"bad"), b" junk", b"\r\nA: b\r\n\r\n");
            }
            if kind == "req" {
                add(kind, &[64, 0, 80], 2, &cat(start, b""), b":\n", b"A: b\r\n\r\n");
                add(kind, &[64, 0], 2, &cat(start, b"A: b\r\n"), b"junk without colon\r\n", b"\r\n");
                add(kind, &[64, 0], 2, &cat(start, b"bad"), b" junk", b"\r\nA: b\r\n\r\n");
            }
            if kind != "hdrs" {
                add(kind, &[16, 0, 127], 2, &cat(start, b""), b" ", b"A: b\r\n\r\n");
                add(kind, &[16, 0], 2, &cat(start, b""), b"\t", b"A: b\r\nC: d\r\n\r\n");
                add(kind, &[16, 0], 2, &cat(start, b""), b" ", b"\r\n");
            }
            // many header lines: fitting, one too few, far too few
            let (s, at) = mk(&cat(start, b""), b"k: v\r\n", n, b"\r\n");
            // (beyond a few thousand lines the executable model's header list makes one case take minutes;
            // the large-input stage counts the headers of 50 000-line heads instead)
            if n <= 5000 { for cap in [n + 1, n, n - 1, 3] { extra.push((kind, 0, cap, s.clone(), at)); } }
        }
        // chunk size lines
        add("chunk", &[0], 0, b"", b"0", b"1\r\n");
        add("chunk", &[0], 0, b"1f", b" ", b"\r\n");
        add("chunk", &[0], 0, b"1f", b"\t", b";x\r\n");
        add("chunk", &[0], 0, b"1f", b" \t", b";x\r\n");
        add("chunk", &[0], 0, b"1f;", b"x", b"\r\n");
        add("chunk", &[0], 0, b"1f ;", b" \n;\t", b"\r\n");
    }
    v.append(&mut extra);
    v
}

/// G13: a run (40 and 72 repetitions: one, two and four 8-byte words, one and two 16- and 32-byte blocks plus
/// remainders) of every repeatable element with ONE foreign byte inside it, at every offset of the run and for
/// every boundary byte value — what a word- or block-at-a-time fast path over that element gets wrong.
fn g_foreign(out: &mut Out, thorough: bool) -> io::Result<()> {
    let foreign: Vec<u8> = if thorough { (0..=255u8).collect() } else { SPECIAL.to_vec() };
    for (kind, cfg, cap, s, at) in long_runs_of(&[40, 72]) {
        if cfg == 127 || cap != 2 { continue; }
        // the run occupies s[start..at]; its unit length is not recorded: recover the run start from the
        // longest periodic suffix ending at `at` — simpler: substitute at every offset of the last 72 bytes
        let lo = at.saturating_sub(76);
        for p in lo..at.min(s.len()) {
            for &b in &foreign {
                if s[p] == b { continue; }
                let mut t = s.clone();
                t[p] = b;
                line(out, kind, cfg, cap, &t)?;
            }
        }
    }
    // bytes behind a complete head (a body in the same read): every boundary value, alone and as a word
    for (kind, list) in [("req", REQ_TEMPLATES), ("resp", RESP_TEMPLATES)] {
        for (t, cfgs) in list {
            let k = t.iter().filter(|&&b| b == b'\n').count();
            for &cfg in cfgs.iter() {
                for &b in SPECIAL.iter() {
                    for rep in [1usize, 8, 33] {
                        let mut x = t.to_vec();
                        x.extend(std::iter::repeat(b).take(rep));
                        line(out, kind, cfg, k + 1, &x)?;
                    }
                }
            }
        }
    }
    for t in HDRS_TEMPLATES {
        for &b in SPECIAL.iter() {
            for rep in [1usize, 8, 33] {
                let mut x = t.to_vec();
                x.extend(std::iter::repeat(b).take(rep));
                line(out, "hdrs", 0, 4, &x)?;
            }
        }
    }
    Ok(())
}

fn g_longruns(out: &mut Out, thorough: bool, mode: &str) -> io::Result<()> {
    for (kind, cfg, cap, s, at) in long_runs(thorough) {
        // (the executable model is quadratic in the length of a single token: the longest runs are judged
        // once, whole, under the default and the run's own option only, and only runs of one-byte units)
        if s.len() > 20000 {
            if s.len() < 67000 && cfg != 127 && (mode == "core" || (mode == "cfgpair" && cfg != 0 && kind != "hdrs" && kind != "chunk")) {
                if mode == "core" { line(out, kind, cfg, cap, &s)?; } else { writeln!(out, "cfgpair {} 0 {} {} {}", kind, cfg, cap, hex(&s))?; }
            }
            continue;
        }
        match mode {
            "core" => {
                line(out, kind, cfg, cap, &s)?;
                // cut inside the run, right after it, and just before the end
                for cut in [at / 2, at, at + 1, s.len() - 1] {
                    if cut < s.len() { line(out, kind, cfg, cap, &s[..cut])?; }
                }
            }
            "cfgpair" => {
                if kind == "req" || kind == "resp" {
                    if cfg != 0 { writeln!(out, "cfgpair {} 0 {} {} {}", kind, cfg, cap, hex(&s))?; }
                    else { writeln!(out, "cfgpair {} 0 127 {} {}", kind, cap, hex(&s))?; }
                }
            }
            "entries" => {
                if kind == "req" { writeln!(out, "reqall {} {} {}", cfg, cap, hex(&s))?; }
                if kind == "resp" { writeln!(out, "respall {} {} {}", cfg, cap, hex(&s))?; }
            }
            "hrel" => {
                if kind == "hdrs" { writeln!(out, "hrel {} {}", cap, hex(&s))?; }
            }
            "caps" => {
                if (kind == "req" || kind == "resp") && cap == 2 && s.len() < 3000 { writeln!(out, "capsweep {} {} 3 {}", kind, cfg, hex(&s))?; }
            }
            "hist" => {
                // the documented loop: the same value sees a prefix that ends inside the run, then the whole
                if kind == "req" || kind == "resp" {
                    writeln!(out, "hist {} {} 2 1 {} {} 1 {} {} 1 {} {}", kind, cap, cfg, hex(&s[..at / 2]), cfg, hex(&s[..at]), cfg, hex(&s))?;
                }
            }
            _ => {}
        }
    }
    Ok(())
}

pub fn cmd_gen(args: &[String]) -> io::Result<()> {
    let family = args.get(0).map(|s| s.as_str()).unwrap_or("core");
    let thorough = args.get(1).map(|s| s.as_str()) == Some("thorough");
    let seed: u64 = args.get(2).and_then(|s| s.parse().ok()).unwrap_or(1);
    let mut rng = Rng(seed ^ 0x5eed_0000_0000_0000 ^ (family.len() as u64) << 32);
    let stdout: io::Stdout = io::stdout();
    let lock: io::StdoutLock<'static> = stdout.lock();
    let mut out: Out = BufWriter::with_capacity(1 << 20, lock);
    match family {
        "core" => {
            g1(&mut out, &mut rng, thorough)?;
            g6(&mut out)?;
            g3(&mut out, &mut rng, thorough)?;
            g4(&mut out, &mut rng, if thorough { 2_000_000 } else { 150_000 })?;
            g_longruns(&mut out, thorough, "core")?;
            g_foreign(&mut out, thorough)?;
        }
        "block" => g2(&mut out, if thorough { 5 } else { 4 }, thorough)?,
        "chunk" => {
            for t in CHUNK_TEMPLATES { g1_template(&mut out, &mut rng, "chunk", t, &[0], thorough)?; }
            g9(&mut out, &mut rng, if thorough { 6 } else { 5 })?;
        }
        "scan" => g8(&mut out, &mut rng, thorough)?,
        "swar" => g_swar(&mut out, &mut rng, thorough)?,
        "utf8" => g_utf8(&mut out, &mut rng, thorough)?,
        "entries" => { g_entries(&mut out, &mut rng, if thorough { 200_000 } else { 10_000 })?; g_longruns(&mut out, false, "entries")?; }
        "hist" => { g_hist(&mut out, &mut rng, if thorough { 400_000 } else { 30_000 })?; g_longruns(&mut out, false, "hist")?; }
        "place" => g_place(&mut out, &mut rng, if thorough { 300_000 } else { 20_000 })?,
        "classes" => { writeln!(out, "classes")?; writeln!(out, "errtext")?; }
        "caps" => { g_caps(&mut out, &mut rng, if thorough { 300_000 } else { 20_000 })?; g_longruns(&mut out, false, "caps")?; }
        "split" => g_split(&mut out, &mut rng, if thorough { 300_000 } else { 12_000 })?,
        "cfgpair" => { g_cfgpair(&mut out, &mut rng, if thorough { 1_000_000 } else { 60_000 }, thorough)?; g_longruns(&mut out, thorough, "cfgpair")?; }
        "hrel" => { g_hrel(&mut out, &mut rng, if thorough { 1_000_000 } else { 60_000 })?; g_longruns(&mut out, false, "hrel")?; }
        _ => {
            eprintln!("unknown family {}", family);
            std::process::exit(2);
        }
    }
    out.flush()
}


// ------------------------------------------------------------------------------------------------
// G10: adversarial large inputs — cost measurement (C20).  Rust side only; judged by ./check against
// the bounds proved in Lean (travel <= length) and by the growth of the best-of-N time between two sizes.

fn fill_to(mut s: Vec<u8>, unit: &[u8], n: usize, tail: &[u8]) -> Vec<u8> {
    while s.len() + unit.len() + tail.len() <= n {
        s.extend_from_slice(unit);
    }
    s.extend_from_slice(tail);
    s
}

/// a family member: `pre ++ unit^k ++ tail`, as many units as fit into `n` bytes
pub struct Fam { pub name: &'static str, pub kind: &'static str, pub cfg: u32, pub buf: Vec<u8>, pub pre: usize, pub unit: usize, pub tail: usize }

fn fill_parts(s: Vec<u8>, unit: &[u8], n: usize, tail: &[u8]) -> (Vec<u8>, usize, usize, usize) {
    let pre = s.len();
    (fill_to(s, unit, n, tail), pre, unit.len(), tail.len())
}

fn fam(name: &'static str, kind: &'static str, cfg: u32, p: (Vec<u8>, usize, usize, usize)) -> Fam {
    Fam { name, kind, cfg, buf: p.0, pre: p.1, unit: p.2, tail: p.3 }
}

pub fn cost_families(n: usize) -> Vec<(&'static str, &'static str, u32, Vec<u8>)> {
    cost_families_ex(n).into_iter().map(|f| (f.name, f.kind, f.cfg, f.buf)).collect()
}

pub fn cost_families_ex(n: usize) -> Vec<Fam> {
    let rq = b"GET / HTTP/1.1\r\n".to_vec();
    let rs = b"HTTP/1.1 200 OK\r\n".to_vec();
    let mut v: Vec<Fam> = Vec::new();
    let mut a = rs.clone(); a.extend_from_slice(b"A: b\r\n");
    v.push(fam("folds-in-one-value", "resp", 2, fill_parts(a, b" c\r\n", n, b"\r\n")));
    let mut a = rs.clone(); a.extend_from_slice(b"A:");
    v.push(fam("folds-before-value", "resp", 2, fill_parts(a, b"\r\n ", n, b"v\r\n\r\n")));
    v.push(fam("ignored-short-lines-resp", "resp", 32, fill_parts(rs.clone(), b":\n", n, b"\r\n")));
    v.push(fam("ignored-short-lines-req", "req", 64, fill_parts(rq.clone(), b":\n", n, b"\r\n")));
    v.push(fam("ignored-long-lines", "req", 64, fill_parts(rq.clone(), b"bad line with some text in it and no colon at all\r\n", n, b"\r\n")));
    let mut a = rq.clone(); a.extend_from_slice(b"A:");
    v.push(fam("whitespace-after-colon", "req", 0, fill_parts(a, b" ", n, b"v\r\n\r\n")));
    let mut a = rs.clone(); a.extend_from_slice(b"A");
    v.push(fam("whitespace-after-name", "resp", 1, fill_parts(a, b" ", n, b":v\r\n\r\n")));
    v.push(fam("leading-whitespace", "req", 16, fill_parts(rq.clone(), b"\t", n, b"A: b\r\n\r\n")));
    let mut a = rq.clone(); a.extend_from_slice(b"A: v");
    v.push(fam("tabs-in-value(swar-near-miss)", "req", 0, fill_parts(a, b"\t", n, b"\r\n\r\n")));
    let mut a = rq.clone(); a.extend_from_slice(b"A: v");
    v.push(fam("obs-text-value", "req", 0, fill_parts(a, b"\xff\x80", n, b"\r\n\r\n")));
    let mut a = rq.clone(); a.extend_from_slice(b"A: v");
    v.push(fam("trailing-whitespace-value", "req", 0, fill_parts(a, b" ", n, b"\r\n\r\n")));
    v.push(fam("many-small-headers", "req", 0, fill_parts(rq.clone(), b"a:b\r\n", n, b"\r\n")));
    v.push(fam("many-small-headers-lf", "req", 0, fill_parts(b"GET / HTTP/1.1\n".to_vec(), b"a:b\n", n, b"\n")));
    v.push(fam("many-headers-lf-resp", "resp", 0, fill_parts(b"HTTP/1.1 200 OK\n".to_vec(), b"key: some value\n", n, b"\n")));
    v.push(fam("long-target", "req", 0, fill_parts(b"GET /".to_vec(), b"a", n, b" HTTP/1.1\r\n\r\n")));
    v.push(fam("long-reason", "resp", 0, fill_parts(b"HTTP/1.1 200 ".to_vec(), b"r", n, b"\r\n\r\n")));
    v.push(fam("leading-empty-lines", "req", 0, fill_parts(Vec::new(), b"\r\n", n, b"GET / HTTP/1.1\r\n\r\n")));
    v.push(fam("leading-empty-lines-lf", "resp", 0, fill_parts(Vec::new(), b"\n", n, b"HTTP/1.1 200 OK\r\n\r\n")));
    v.push(fam("multi-spaces", "req", 4, fill_parts(b"GET ".to_vec(), b" ", n, b"/ HTTP/1.1\r\n\r\n")));
    v.push(fam("partial-folds", "resp", 2, fill_parts(rs.clone(), b"A: b\r\n c\r\n", n, b"")));
    v.push(fam("chunk-extension", "chunk", 0, fill_parts(b"1f;".to_vec(), b"x", n, b"\r\n")));
    v.push(fam("chunk-lws", "chunk", 0, fill_parts(b"1f".to_vec(), b" ", n, b"\r\n")));
    v.push(fam("chunk-lws-ext", "chunk", 0, fill_parts(b"1f".to_vec(), b"\t ", n, b";x\r\n")));
    v.push(fam("multi-spaces-resp-code", "resp", 8, fill_parts(b"HTTP/1.1 200".to_vec(), b" ", n, b"OK\r\n\r\n")));
    v.push(fam("multi-spaces-resp-version", "resp", 8, fill_parts(b"HTTP/1.1".to_vec(), b" ", n, b"200 OK\r\n\r\n")));
    v.push(fam("multi-spaces-req-version", "req", 4, fill_parts(b"GET /".to_vec(), b" ", n, b"HTTP/1.1\r\n\r\n")));
    v.push(fam("long-target-utf8(swar-near-miss)", "req", 0, fill_parts(b"GET /".to_vec(), b"\xc3\xa9", n, b" HTTP/1.1\r\n\r\n")));
    let mut a = rq.clone(); a.extend_from_slice(b"a");
    v.push(fam("long-header-name", "req", 0, fill_parts(a, b"!#$%&'*+-.^_`|~09AZaz", n, b": v\r\n\r\n")));
    v.push(fam("long-method", "req", 0, fill_parts(Vec::new(), b"M", n, b" / HTTP/1.1\r\n\r\n")));
    v.push(fam("reason-obs-text", "resp", 0, fill_parts(b"HTTP/1.1 200 ".to_vec(), b"\t\xff ", n, b"\r\n\r\n")));
    let mut a = rs.clone(); a.extend_from_slice(b"A: v");
    v.push(fam("value-alternating(near-miss-every-block)", "resp", 0, fill_parts(a, b"abcdefg\tabcdefghijklmn\x80", n, b"\r\n\r\n")));
    v
}

pub fn cmd_cost(args: &[String]) {
    use std::time::Instant;
    let small: usize = args.get(0).and_then(|s| s.parse().ok()).unwrap_or(32 * 1024);
    let factor: usize = args.get(1).and_then(|s| s.parse().ok()).unwrap_or(8);
    let reps: usize = args.get(2).and_then(|s| s.parse().ok()).unwrap_or(7);
    let only: Option<&String> = args.get(3);
    // work must not depend on the *capacity* of the header array either (C20: "bounded by a constant times
    // the buffer length"): the same small message with a 16-slot and a 2^20-slot array, every entry point
    if only.is_none() || only.map(|s| s.as_str()) == Some("capacity") {
        use std::mem::MaybeUninit;
        let rq: &[u8] = b"GET / HTTP/1.1\r\nA: b\r\n\r\n";
        let rs: &[u8] = b"HTTP/1.1 200 OK\r\nA: b\r\n\r\n";
        let hd: &[u8] = b"A: b\r\n\r\n";
        let cfg = httparse::ParserConfig::default();
        for entry in ["req.parse", "req.cfg", "req.uninit", "resp.parse", "resp.cfg", "resp.uninit", "hdrs", "req.partial", "resp.err"] {
            let mut row = Vec::new();
            for cap in [16usize, 1 << 20] {
                let mut headers = vec![httparse::EMPTY_HEADER; cap];
                let mut uninit: Vec<MaybeUninit<httparse::Header<'_>>> = Vec::with_capacity(cap);
                // SAFETY: MaybeUninit needs no initialisation
                unsafe { uninit.set_len(cap) };
                let mut best = u128::MAX;
                for _ in 0..reps.max(5) {
                    let t0 = Instant::now();
                    let ok = match entry {
                        "req.parse" => { let mut r = httparse::Request::new(&mut headers); r.parse(rq).is_ok() }
                        "req.cfg" => { let mut r = httparse::Request::new(&mut headers); cfg.parse_request(&mut r, rq).is_ok() }
                        "req.uninit" => { let mut r = httparse::Request::new(&mut []); cfg.parse_request_with_uninit_headers(&mut r, rq, &mut uninit).is_ok() }
                        "resp.parse" => { let mut r = httparse::Response::new(&mut headers); r.parse(rs).is_ok() }
                        "resp.cfg" => { let mut r = httparse::Response::new(&mut headers); cfg.parse_response(&mut r, rs).is_ok() }
                        "resp.uninit" => { let mut r = httparse::Response::new(&mut []); cfg.parse_response_with_uninit_headers(&mut r, rs, &mut uninit).is_ok() }
                        "hdrs" => httparse::parse_headers(hd, &mut headers).is_ok(),
                        "req.partial" => { let mut r = httparse::Request::new(&mut headers); r.parse(&rq[..rq.len() - 2]).is_ok() }
                        _ => { let mut r = httparse::Response::new(&mut headers); r.parse(b"HTTP/1.1 200 OK\r\nA: b\r\nbad\r\n\r\n").is_ok() }
                    };
                    let dt = t0.elapsed().as_nanos();
                    std::hint::black_box(ok);
                    if dt < best { best = dt; }
                }
                row.push(best);
            }
            println!("capcost {} cap16_ns={} cap1m_ns={}", entry, row[0], row[1]);
        }
    }
    for size in [small, small * factor] {
        for (name, kind, cfg, buf) in cost_families(size) {
            if let Some(o) = only { if o != name { continue; } }
            let cap = buf.iter().filter(|&&b| b == b'\n').count() + 2;
            let config = crate::mk_config(cfg);
            let mut headers = vec![httparse::EMPTY_HEADER; if kind == "chunk" { 0 } else { cap }];
            let mut best = u128::MAX;
            let mut status = String::new();
            let mut counters = String::new();
            println!("begin {} size={}", name, buf.len());
            for _ in 0..reps {
                crate::counters_reset();
                // watchdog: a parse that does not return within 60 s kills the process (SIGALRM)
                extern "C" { fn alarm(seconds: u32) -> u32; }
                // SAFETY: plain libc call
                unsafe { alarm(60) };
                let t0 = Instant::now();
                let show = |r: Result<httparse::Status<usize>, String>, nh: usize| match r {
                    Ok(httparse::Status::Complete(n)) => format!("C:{}:{}", n, nh),
                    Ok(httparse::Status::Partial) => "P".to_string(),
                    Err(e) => format!("E:{}", e),
                };
                status = match kind {
                    "req" => {
                        let mut r = httparse::Request::new(&mut headers);
                        let st = config.parse_request(&mut r, &buf).map_err(|e| format!("{:?}", e));
                        let nh = r.headers.len();
                        show(st, nh)
                    }
                    "resp" => {
                        let mut r = httparse::Response::new(&mut headers);
                        let st = config.parse_response(&mut r, &buf).map_err(|e| format!("{:?}", e));
                        let nh = r.headers.len();
                        show(st, nh)
                    }
                    _ => show(httparse::parse_chunk_size(&buf).map(|s| match s { httparse::Status::Complete((n, _)) => httparse::Status::Complete(n), httparse::Status::Partial => httparse::Status::Partial }).map_err(|_| "ChunkSize".to_string()), 0),
                };
                let dt = t0.elapsed().as_nanos();
                // SAFETY: plain libc call
                unsafe { alarm(0) };
                if dt < best { best = dt; }
                counters = crate::counters_str();
                // a run that already takes long is not repeated (super-linear code would make the whole
                // measurement take minutes)
                if dt > 200_000_000 { break; }
            }
            println!("cost {} {} cfg={} size={} ns={} {} status={}", name, kind, cfg, buf.len(), best, counters, status.replace(' ', ""));
        }
    }
}

// ------------------------------------------------------------------------------------------------
// G14: scaling.  Every G10 family member is `pre ++ unit^k ++ tail`; every number the parser reports for it
// (status kind, n, header count, offsets and lengths of the fields, of the first and of the last header) is an
// affine function of the buffer length.  Two small members (a few hundred bytes: sizes at which the model
// judges the real code in the ordinary families) and one huge member (9 MiB quick, 40 MiB thorough) are parsed
// through every entry point, whole and in three variations; ./check verifies that the huge observation is the
// affine extrapolation of the two small ones and that the entry points agree.  This is what finds limits and
// counters that only bite at sizes no model-judged case reaches (u16/u32 lengths, "hardening" caps at 64 KiB …
// 4 Mi lines, windows).  Rust side only; a supporting stage, not a proof.

fn scale_obs(kind: &str, entry: &str, cfg: u32, buf: &[u8], cap: usize) -> String {
    use std::mem::MaybeUninit;
    let config = crate::mk_config(cfg);
    let off = |p: *const u8, l: usize| -> String { if l == 0 { "e".to_string() } else { format!("{}+{}", (p as usize).wrapping_sub(buf.as_ptr() as usize), l) } };
    let hdrs = |hs: &[httparse::Header<'_>]| -> String {
        let one = |h: &httparse::Header<'_>| format!("{}:{}", off(h.name.as_ptr(), h.name.len()), off(h.value.as_ptr(), h.value.len()));
        match (hs.first(), hs.last()) { (Some(a), Some(b)) => format!("{}|{}", one(a), one(b)), _ => "-".to_string() }
    };
    let st = |r: &Result<httparse::Status<usize>, httparse::Error>| match r {
        Ok(httparse::Status::Complete(n)) => format!("C n={}", n),
        Ok(httparse::Status::Partial) => "P n=0".to_string(),
        Err(e) => format!("E:{:?} n=0", e),
    };
    let mut headers = vec![httparse::EMPTY_HEADER; if entry.ends_with("uninit") { 0 } else { cap }];
    let mut uninit: Vec<MaybeUninit<httparse::Header<'_>>> = Vec::with_capacity(cap);
    // SAFETY: MaybeUninit needs no initialisation
    unsafe { uninit.set_len(if entry.ends_with("uninit") { cap } else { 0 }) };
    match kind {
        "req" => {
            let mut r = httparse::Request::new(&mut headers);
            let res = match entry {
                "parse" => r.parse(buf),
                "cfg" => config.parse_request(&mut r, buf),
                "parse_uninit" => r.parse_with_uninit_headers(buf, &mut uninit),
                _ => config.parse_request_with_uninit_headers(&mut r, buf, &mut uninit),
            };
            let done = matches!(res, Ok(httparse::Status::Complete(_)));
            format!("{} hc={} m={} p={} v={} h={}", st(&res), if done { r.headers.len() } else { 0 },
                    r.method.map(|s| off(s.as_ptr(), s.len())).unwrap_or("-".into()), r.path.map(|s| off(s.as_ptr(), s.len())).unwrap_or("-".into()),
                    r.version.map(|v| v.to_string()).unwrap_or("-".into()), if done { hdrs(r.headers) } else { "-".into() })
        }
        "resp" => {
            let mut r = httparse::Response::new(&mut headers);
            let res = match entry {
                "parse" => r.parse(buf),
                "cfg" => config.parse_response(&mut r, buf),
                _ => config.parse_response_with_uninit_headers(&mut r, buf, &mut uninit),
            };
            let done = matches!(res, Ok(httparse::Status::Complete(_)));
            format!("{} hc={} c={} r={} v={} h={}", st(&res), if done { r.headers.len() } else { 0 },
                    r.code.map(|v| v.to_string()).unwrap_or("-".into()), r.reason.map(|s| off(s.as_ptr(), s.len())).unwrap_or("-".into()),
                    r.version.map(|v| v.to_string()).unwrap_or("-".into()), if done { hdrs(r.headers) } else { "-".into() })
        }
        "hdrs" => {
            match httparse::parse_headers(buf, &mut headers) {
                Ok(httparse::Status::Complete((n, hs))) => format!("C n={} hc={} h={}", n, hs.len(), hdrs(hs)),
                Ok(httparse::Status::Partial) => "P n=0 hc=0 h=-".to_string(),
                Err(e) => format!("E:{:?} n=0 hc=0 h=-", e),
            }
        }
        _ => match httparse::parse_chunk_size(buf) {
            Ok(httparse::Status::Complete((n, sz))) => format!("C n={} hc=0 size={}", n, sz),
            Ok(httparse::Status::Partial) => "P n=0 hc=0 size=-".to_string(),
            Err(_) => "E:ChunkSize n=0 hc=0 size=-".to_string(),
        },
    }
}

pub fn cmd_scale(args: &[String]) {
    let big: usize = args.get(0).and_then(|s| s.parse().ok()).unwrap_or(9 << 20);
    let only: Option<&String> = args.get(1);
    extern "C" { fn alarm(seconds: u32) -> u32; }
    for size in [320usize, 640, big] {
        for f in cost_families_ex(size) {
            if let Some(o) = only { if o != f.name { continue; } }
            // the message itself, and (for heads whose run lies in the header block) the block alone
            let mut subjects: Vec<(&str, Vec<u8>)> = vec![(f.kind, f.buf.clone())];
            for line in [&b"GET / HTTP/1.1\r\n"[..], &b"HTTP/1.1 200 OK\r\n"[..]] {
                if f.cfg == 0 && f.pre >= line.len() && f.buf.starts_with(line) { subjects.push(("hdrs", f.buf[line.len()..].to_vec())); }
            }
            for (kind, base) in subjects {
                let cap = base.iter().filter(|&&b| b == b'\n').count() + 2;
                let entries: &[&str] = match kind { "req" => &["parse", "cfg", "parse_uninit", "cfg_uninit"], "resp" => &["parse", "cfg", "cfg_uninit"], _ => &["only"] };
                let run_end = base.len() - f.tail;
                let mut vars: Vec<(&str, Vec<u8>)> = Vec::new();
                vars.push(("whole", base.clone()));
                vars.push(("cut-1", base[..base.len() - 1].to_vec()));
                vars.push(("cut-in-run", base[..run_end - (f.unit * 3).min(run_end)].to_vec()));
                let mut x = base.clone(); if run_end >= 1 { x[run_end - 1] = 0; } vars.push(("nul-at-end-of-run", x));
                let mut x = base.clone(); x.extend_from_slice(b"\0\0\0\0\0\0\0\0body"); vars.push(("with-body", x));
                for (vname, buf) in vars {
                    for e in entries {
                        println!("begin {} {} {} {} len={}", f.name, kind, vname, e, buf.len());
                        // SAFETY: plain libc call (watchdog: a parse that does not return kills the process)
                        unsafe { alarm(120) };
                        let o = scale_obs(kind, e, f.cfg, &buf, cap);
                        // SAFETY: plain libc call
                        unsafe { alarm(0) };
                        println!("scale {} {} {} {} cfg={} len={} {}", f.name, kind, vname, e, f.cfg, buf.len(), o);
                    }
                }
            }
        }
    }
}
