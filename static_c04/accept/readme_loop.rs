fn main() {
    let mut buf: Vec<u8> = Vec::new();
    let chunks: [&[u8]; 3] = [b"GET /index.html HT", b"TP/1.1\r\nHost: exa", b"mple.domain\r\n\r\n"];
    for c in chunks.iter() {
        buf.extend_from_slice(c);
        let mut headers = [httparse::EMPTY_HEADER; 16];
        let mut req = httparse::Request::new(&mut headers);
        match req.parse(&buf) {
            Ok(httparse::Status::Complete(n)) => { println!("{} {:?} {:?}", n, req.method, req.path); }
            Ok(httparse::Status::Partial) => {}
            Err(e) => panic!("{}", e),
        }
    }
}
