fn main() {
    let buf = b"Host: foo.bar\nAccept: */*\n\nblah blah";
    let mut headers = [httparse::EMPTY_HEADER; 4];
    let r = httparse::parse_headers(buf, &mut headers);
    println!("{:?}", r);
    println!("{:?}", httparse::parse_chunk_size(b"4\r\nRust\r\n0\r\n\r\n"));
}
