#![allow(unused)]
fn main() {
    let mut buf = b"HTTP/1.1 200 OK\r\nA: b\r\n\r\n".to_vec();
    let mut u = [std::mem::MaybeUninit::<httparse::Header<'_>>::uninit(); 4];
    let mut r = httparse::Response::new(&mut []);
    let cfg = httparse::ParserConfig::default();
    let _ = &cfg;
    let _ = cfg.parse_response_with_uninit_headers(&mut r, &buf, &mut u);
    let kept: &str = r.headers[0].name;
    println!("{:?}", kept);
    drop(buf);
}
