fn main() {
    let full = b"HTTP/1.1 200 OK\r\nA: b\r\n\r\n".to_vec();
    let mut headers = [httparse::EMPTY_HEADER; 4];
    let mut resp = httparse::Response::new(&mut headers);
    for k in 0..=full.len() {
        if let Ok(httparse::Status::Complete(n)) = resp.parse(&full[..k]) {
            println!("{} {:?} {}", n, resp.code, resp.headers.len());
            break;
        }
    }
}
