use std::mem::MaybeUninit;
fn main() {
    let buf = b"GET / HTTP/1.1\r\nA: b\r\n\r\n".to_vec();
    let mut u: [MaybeUninit<httparse::Header<'_>>; 4] = [MaybeUninit::uninit(); 4];
    let mut r = httparse::Request::new(&mut []);
    let st = r.parse_with_uninit_headers(&buf, &mut u);
    println!("{:?} {}", st, r.headers.len());
    let rb = b"HTTP/1.1 200 OK\r\nA: b\r\n\r\n".to_vec();
    let mut u2: [MaybeUninit<httparse::Header<'_>>; 4] = [MaybeUninit::uninit(); 4];
    let mut resp = httparse::Response::new(&mut []);
    let cfg = httparse::ParserConfig::default();
    let st2 = cfg.parse_response_with_uninit_headers(&mut resp, &rb, &mut u2);
    println!("{:?} {:?}", st2, resp.reason);
}
