#![allow(unused)]
fn main() {
    let buf = b"A: b\r\n\r\n".to_vec();
    let kept: &[httparse::Header<'_>];
    {
        let mut h = [httparse::EMPTY_HEADER; 4];
        let out = httparse::parse_headers(&buf, &mut h);
        let hs = match out { Ok(httparse::Status::Complete((_, hs))) => hs, _ => panic!() };
        kept = hs;
        println!("{:?}", kept.len());
    }
}
