#![allow(unused)]
fn main() {
    let mut h = [httparse::EMPTY_HEADER; 4];
    {
        let buf = b"HTTP/1.1 200 OK\r\nA: b\r\n\r\n".to_vec();
        let mut r = httparse::Response::new(&mut h);
        let cfg = httparse::ParserConfig::default();
        let _ = &cfg;
        let _ = r.parse(&buf);
        println!("{:?}", h[0].value);
    }
}
