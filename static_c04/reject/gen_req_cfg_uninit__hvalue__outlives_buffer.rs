#![allow(unused)]
fn main() {
    let kept: &[u8];
    {
        let buf = b"GET /p HTTP/1.1\r\nA: b\r\n\r\n".to_vec();
        let mut u = [std::mem::MaybeUninit::<httparse::Header<'_>>::uninit(); 4];
        let mut r = httparse::Request::new(&mut []);
        let cfg = httparse::ParserConfig::default();
        let _ = &cfg;
        let _ = cfg.parse_request_with_uninit_headers(&mut r, &buf, &mut u);
        kept = r.headers[0].value;
    }
    println!("{:?}", kept);
}
