#![allow(unused)]
fn main() {
    let mut h = [httparse::EMPTY_HEADER; 4];
    {
        let buf = b"GET /p HTTP/1.1\r\nA: b\r\n\r\n".to_vec();
        let mut r = httparse::Request::new(&mut h);
        let cfg = httparse::ParserConfig::default();
        let _ = &cfg;
        let _ = cfg.parse_request(&mut r, &buf);
    }
    println!("{:?}", h[0].value);
}
