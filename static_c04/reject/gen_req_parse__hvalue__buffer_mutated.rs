#![allow(unused)]
fn main() {
    let mut buf = b"GET /p HTTP/1.1\r\nA: b\r\n\r\n".to_vec();
    let mut h = [httparse::EMPTY_HEADER; 4];
    let mut r = httparse::Request::new(&mut h);
    let cfg = httparse::ParserConfig::default();
    let _ = &cfg;
    let _ = r.parse(&buf);
    let kept: &[u8] = r.headers[0].value;
    buf[0] = b'X';
    println!("{:?}", kept);
}
