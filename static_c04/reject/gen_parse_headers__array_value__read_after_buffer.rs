#![allow(unused)]
fn main() {
    let mut h = [httparse::EMPTY_HEADER; 4];
    {
        let buf = b"A: b\r\n\r\n".to_vec();
        let _ = httparse::parse_headers(&buf, &mut h);
    }
    println!("{:?}", h[0].value);
}
