use std::mem::MaybeUninit;
fn main() {
    let buf = b"GET / HTTP/1.1\r\nA: b\r\n\r\n".to_vec();
    let mut r = httparse::Request::new(&mut []);
    let mut u: [MaybeUninit<httparse::Header<'_>>; 4] = [MaybeUninit::uninit(); 4];
    let _ = r.parse_with_uninit_headers(&buf, &mut u);
    u[0] = MaybeUninit::uninit();
    println!("{}", r.headers.len());
}
