#![allow(unused)]
fn main() {
    let mut buf = b"HTTP/1.1 200 OK\r\nA: b\r\n\r\n".to_vec();
    let mut h = [httparse::EMPTY_HEADER; 4];
    let mut r = httparse::Response::new(&mut h);
    let cfg = httparse::ParserConfig::default();
    let _ = &cfg;
    let _ = r.parse(&buf);
    let kept: &str = r.reason.unwrap();
    drop(buf);
    println!("{:?}", kept);
}
