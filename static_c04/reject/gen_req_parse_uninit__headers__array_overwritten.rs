#![allow(unused)]
fn main() {
    let buf = b"GET /p HTTP/1.1\r\nA: b\r\n\r\n".to_vec();
    let mut u = [std::mem::MaybeUninit::<httparse::Header<'_>>::uninit(); 4];
    let mut r = httparse::Request::new(&mut []);
    let cfg = httparse::ParserConfig::default();
    let _ = &cfg;
    let _ = r.parse_with_uninit_headers(&buf, &mut u);
    let kept = r.headers;
    u[0] = std::mem::MaybeUninit::uninit();
    println!("{:?}", kept.len());
}
