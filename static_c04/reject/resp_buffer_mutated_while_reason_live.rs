fn main() {
    let mut h = [httparse::EMPTY_HEADER; 4];
    let mut buf = b"HTTP/1.1 200 OK\r\n\r\n".to_vec();
    let mut r = httparse::Response::new(&mut h);
    let _ = r.parse(&buf);
    buf.clear();
    println!("{:?}", r.reason);
}
