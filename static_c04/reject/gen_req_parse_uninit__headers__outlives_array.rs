#![allow(unused)]
fn main() {
    let buf = b"GET /p HTTP/1.1\r\nA: b\r\n\r\n".to_vec();
    let kept: &mut [httparse::Header<'_>];
    {
        let mut u = [std::mem::MaybeUninit::<httparse::Header<'_>>::uninit(); 4];
        let mut r = httparse::Request::new(&mut []);
        let cfg = httparse::ParserConfig::default();
        let _ = &cfg;
        let _ = r.parse_with_uninit_headers(&buf, &mut u);
        kept = r.headers;
    }
    println!("{:?}", kept.len());
}
