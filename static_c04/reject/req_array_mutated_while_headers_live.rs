fn main() {
    let buf = b"GET / HTTP/1.1\r\nA: b\r\n\r\n".to_vec();
    let mut h = [httparse::EMPTY_HEADER; 4];
    let mut r = httparse::Request::new(&mut h);
    let _ = r.parse(&buf);
    h[0] = httparse::EMPTY_HEADER;
    println!("{}", r.headers.len());
}
