fn main() {
    let mut h = [httparse::EMPTY_HEADER; 4];
    let mut r = httparse::Request::new(&mut h);
    {
        let buf = b"GET / HTTP/1.1\r\nA: b\r\n\r\n".to_vec();
        let _ = r.parse(&buf);
    }
    println!("{:?}", r.method);
}
