use std::mem::MaybeUninit;
fn main() {
    let buf = b"HTTP/1.1 200 OK\r\nA: b\r\n\r\n".to_vec();
    let cfg = httparse::ParserConfig::default();
    let mut r = httparse::Response::new(&mut []);
    {
        let mut u: [MaybeUninit<httparse::Header<'_>>; 4] = [MaybeUninit::uninit(); 4];
        let _ = cfg.parse_response_with_uninit_headers(&mut r, &buf, &mut u);
    }
    println!("{}", r.headers.len());
}
