fn main() {
    let mut h = [httparse::EMPTY_HEADER; 4];
    let out;
    {
        let buf = b"A: b\r\n\r\n".to_vec();
        out = httparse::parse_headers(&buf, &mut h);
    }
    println!("{:?}", out.is_ok());
}
