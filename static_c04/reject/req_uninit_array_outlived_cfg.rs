use std::mem::MaybeUninit;
fn main() {
    let buf = b"GET / HTTP/1.1\r\nA: b\r\n\r\n".to_vec();
    let cfg = httparse::ParserConfig::default();
    let mut r = httparse::Request::new(&mut []);
    {
        let mut u: [MaybeUninit<httparse::Header<'_>>; 4] = [MaybeUninit::uninit(); 4];
        let _ = cfg.parse_request_with_uninit_headers(&mut r, &buf, &mut u);
    }
    println!("{}", r.headers.len());
}
