fn main() {
    let mut h = [httparse::EMPTY_HEADER; 4];
    let mut buf = b"GET / HTTP/1.1\r\nA: b\r\n\r\n".to_vec();
    let mut r = httparse::Request::new(&mut h);
    let _ = r.parse(&buf);
    buf[0] = b'X';
    println!("{:?}", r.method);
}
