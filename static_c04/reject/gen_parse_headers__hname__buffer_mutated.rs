#![allow(unused)]
fn main() {
    let mut buf = b"A: b\r\n\r\n".to_vec();
    let mut h = [httparse::EMPTY_HEADER; 4];
    let out = httparse::parse_headers(&buf, &mut h);
    let hs = match out { Ok(httparse::Status::Complete((_, hs))) => hs, _ => panic!() };
    let kept: &str = hs[0].name;
    buf[0] = b'X';
    println!("{:?}", kept);
}
