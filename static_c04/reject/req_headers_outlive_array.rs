fn main() {
    let buf = b"GET / HTTP/1.1\r\nA: b\r\n\r\n".to_vec();
    let r;
    {
        let mut h = [httparse::EMPTY_HEADER; 4];
        let mut q = httparse::Request::new(&mut h);
        let _ = q.parse(&buf);
        r = q;
    }
    println!("{}", r.headers.len());
}
