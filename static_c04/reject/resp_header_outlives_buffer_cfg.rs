fn main() {
    let mut h = [httparse::EMPTY_HEADER; 4];
    let mut r = httparse::Response::new(&mut h);
    let cfg = httparse::ParserConfig::default();
    {
        let buf = b"HTTP/1.1 200 OK\r\nA: b\r\n\r\n".to_vec();
        let _ = cfg.parse_response(&mut r, &buf);
    }
    println!("{:?}", r.headers[0].name);
}
