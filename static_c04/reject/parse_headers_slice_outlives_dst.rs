fn main() {
    let buf = b"A: b\r\n\r\n".to_vec();
    let out;
    {
        let mut h = [httparse::EMPTY_HEADER; 4];
        out = httparse::parse_headers(&buf, &mut h);
    }
    println!("{:?}", out.is_ok());
}
